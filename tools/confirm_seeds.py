#!/usr/bin/env python3
"""Confirm seeded changes in a scratch worktree of /repo (outside /repo and /verif):
   for each candidate: applies, compiles, existing tests pass, demo fails with the change, demo passes without.
   Writes /verif/seeded/_confirm.json. usage: confirm_seeds.py [ids...]"""
import json, os, re, subprocess, sys, shutil, glob
WT = os.environ.get("CONFIRM_WT", "/tmp/wt/confirm")
CAND = "/verif/seeded/_candidates"  # intake directory for new sub-agent changes (emptied after promotion)
OUT = os.environ.get("CONFIRM_OUT", "/verif/seeded/_confirm.json")

def sh(cmd, cwd=None, timeout=1800):
    p = subprocess.run(["bash", "-o", "pipefail", "-c", cmd], cwd=cwd, capture_output=True, text=True, timeout=timeout)
    return p.returncode, (p.stdout + p.stderr)

def main():
    res = json.load(open(OUT)) if os.path.exists(OUT) else {}
    if not os.path.exists(WT):
        os.makedirs("/tmp/wt", exist_ok=True)
        rc, o = sh("git -C /repo worktree add --detach %s HEAD -q && cp -r /repo/target %s/target" % (WT, WT))
    else:
        sh("git checkout -q --detach $(git -C /repo rev-parse HEAD) && git checkout -- . && git clean -fdq -e target", cwd=WT)
    want = sys.argv[1:]
    for d in sorted(glob.glob(CAND + "/C*/[0-9]*")):
        pid = d.split("/")[-2]; k = d.split("/")[-1]; key = "%s/%s" % (pid, k)
        if want and pid not in want and key not in want:
            continue
        if key in res and res[key].get("confirmed") is not None and not want:
            continue
        patch = d + "/patch.rebased.diff" if os.path.exists(d + "/patch.rebased.diff") else d + "/patch.diff"
        demo = d + "/demo.rs"
        r = {"patch": os.path.basename(patch)}
        sh("git checkout -- . && git clean -fdq -e target", cwd=WT)
        rc, o = sh("git apply %s" % patch, cwd=WT)
        if rc != 0:
            rc, o = sh("git apply --3way %s && git reset -q" % patch, cwd=WT)
        if rc != 0:
            r.update(confirmed=False, why="patch does not apply to the fixed tree: " + o[-200:])
            sh("git checkout HEAD -- . ; git reset -q", cwd=WT)
            res[key] = r; json.dump(res, open(OUT, "w"), indent=1); continue
        head = open(demo).read()[:600]
        feats = set(re.findall(r"(websocket|value-stream)", head))
        src_changed = sh("git diff --name-only", cwd=WT)[1]
        if "websocket" in src_changed: feats.add("websocket")
        if "value_stream" in src_changed: feats.add("value-stream")
        fflag = ("--features " + ",".join(sorted(feats))) if feats else ""
        rc, o = sh("cargo test --offline 2>&1 | grep -E 'test result|FAILED|error(\\[|:)' | head -60", cwd=WT)
        failed = [l for l in o.splitlines() if "FAILED" in l or l.startswith("error")]
        r["suite_default"] = "pass" if not failed and "test result: ok" in o else "FAIL: " + " | ".join(failed[:3])
        if feats:
            rc, o = sh("cargo test --offline %s 2>&1 | grep -E 'test result|FAILED|error(\\[|:)' | head -80" % fflag, cwd=WT)
            failed = [l for l in o.splitlines() if "FAILED" in l or l.startswith("error")]
            r["suite_features"] = "pass" if not failed and "test result: ok" in o else "FAIL: " + " | ".join(failed[:3])
        shutil.copy(demo, WT + "/tests/seed_demo.rs")
        rc1, o1 = sh("cargo test --offline %s --test seed_demo 2>&1 | tail -15" % fflag, cwd=WT)
        r["demo_with_change"] = "fails" if rc1 != 0 else "PASSES (unexpected)"
        sh("git checkout -- src", cwd=WT)
        rc2, o2 = sh("cargo test --offline %s --test seed_demo 2>&1 | tail -15" % fflag, cwd=WT)
        r["demo_on_clean_tree"] = "passes" if rc2 == 0 else "FAILS (unexpected): " + o2[-300:]
        os.remove(WT + "/tests/seed_demo.rs")
        r["features"] = sorted(feats)
        r["confirmed"] = (r["suite_default"] == "pass" and r.get("suite_features", "pass") == "pass"
                          and r["demo_with_change"] == "fails" and r["demo_on_clean_tree"] == "passes")
        res[key] = r
        json.dump(res, open(OUT, "w"), indent=1)
        print(key, r["confirmed"], r, flush=True)
    sh("git -C /repo worktree remove --force %s" % WT)

main()
