use vstd::prelude::*;
verus! {
pub struct E;
#[verifier::external_body]
fn step(x: &mut u64) -> (r: Result<u64, E>) ensures r.is_ok() ==> *final(x) == *old(x) + 1 { unimplemented!() }

fn f(x: &mut u64) -> (r: Result<u64, E>)
  requires *old(x) < 100
  ensures r.is_ok() ==> *final(x) == *old(x) + 2
{
    let result = 'iife: {
        let a = match step(x) { Ok(v) => v, Err(e) => break 'iife Err(e) };
        let b = match step(x) { Ok(v) => v, Err(e) => break 'iife Err(e) };
        Ok(b)
    };
    result
}
} // verus!
fn main() {}
