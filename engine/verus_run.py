"""Run Verus on a generated unit file and map diagnostics back to obligations."""
import json
import os
import subprocess
import time

DEFINITE = (
    "postcondition not satisfied",
    "precondition not satisfied",
    "invariant not satisfied at end of loop body",
    "invariant not satisfied before loop",
    "assertion failed",
    "possible arithmetic underflow/overflow",
    "possible division by zero",
    "possible bit shift underflow/overflow",
    "decreases not satisfied",
    "unwrap",  # vstd: call to unwrap on None is a precondition failure; kept for completeness
    "failed this postcondition",
    "recursive call may not terminate",
    "loop invariant",
    # a closure literal annotated (R13) with `ensures`: its body does not establish what the annotation says
    "unable to prove post-condition of closure",
    "unable to prove assertion safety condition",
)
RLIMIT = ("rlimit", "resource limit", "timed out", "timeout")


def run_verus(path, rlimit=20, seed=None, multiple_errors=5, threads=8, timeout=600):
    cmd = ["verus", path, "--error-format=json", "--output-json", "--time",
           "--rlimit", str(rlimit), "--multiple-errors", str(multiple_errors),
           "--num-threads", str(threads)]
    if seed is not None:
        cmd += ["--smt-option", "smt.random_seed=%d" % seed]
    t0 = time.time()
    try:
        p = subprocess.run(cmd, capture_output=True, text=True, timeout=timeout,
                           cwd=os.path.dirname(path))
    except subprocess.TimeoutExpired:
        return {"cmd": " ".join(cmd), "timeout": True, "diags": [], "results": None,
                "wall": time.time() - t0, "rc": None, "stderr": ""}
    wall = time.time() - t0
    diags = []
    for ln in p.stderr.splitlines():
        ln = ln.strip()
        if ln.startswith("{") and '"$message_type"' in ln:
            try:
                diags.append(json.loads(ln))
            except ValueError:
                pass
    results = None
    try:
        i = p.stdout.index("{")
        results = json.loads(p.stdout[i:])
    except ValueError:
        pass
    return {"cmd": " ".join(cmd), "timeout": False, "diags": diags, "results": results,
            "wall": wall, "rc": p.returncode, "stderr": p.stderr[-4000:]}


def _primary(d):
    for s in d.get("spans", []):
        if s.get("is_primary"):
            return s
    return d["spans"][0] if d.get("spans") else None


def classify(unit, run, gen_name, line_shift=0):
    """Return (failures, undecided).

    failure: dict(ob, props, kind, fn, repo_file, repo_line, gen_line, message, rendered)
    undecided: list of strings
    line_shift: number of lines inserted at the top region (canary variant) -- lines
    after the insertion point are shifted by this amount; handled by caller passing a
    mapping function instead when needed.
    """
    failures = []
    undecided = []
    if run["timeout"]:
        undecided.append("verus timed out")
        return failures, undecided
    for d in run["diags"]:
        if d.get("level") != "error":
            continue
        msg = d.get("message", "")
        if msg.startswith("aborting due to"):
            continue
        low = msg.lower()
        sp = _primary(d)
        if any(k in low for k in RLIMIT):
            undecided.append("rlimit/timeout: " + msg)
            continue
        if not any(msg.startswith(k) or k in low for k in DEFINITE):
            where = ""
            if sp is not None:
                where = " at %s:%s" % (sp.get("file_name"), sp.get("line_start"))
                if os.path.basename(sp.get("file_name", "")) == gen_name:
                    mp = unit.linemap.get(sp["line_start"])
                    if mp:
                        where += " (= %s:%d)" % mp
            undecided.append("verus front-end/other error: " + msg + where)
            continue
        if sp is None or os.path.basename(sp.get("file_name", "")) != gen_name:
            # primary span not in our file (e.g. a From postcondition in vstd): look for any span in our file
            alt = [s for s in d.get("spans", []) if os.path.basename(s.get("file_name", "")) == gen_name]
            if not alt:
                undecided.append("definite failure outside the unit file: " + msg)
                continue
            sp = alt[0]
        line = sp["line_start"]
        fn = unit.fn_at(line)
        if fn is None:
            undecided.append("verification-side lemma/spec failed (line %d): %s" % (line, msg))
            continue
        tag = unit.tags.get(line)
        props = None
        obname = None
        if tag:
            props, obname = tag
        # a failed precondition: the secondary span may sit on a tagged requires line
        site = unit.linemap.get(line)
        if not tag:
            for s in d.get("spans", []):
                if s is sp or os.path.basename(s.get("file_name", "")) != gen_name:
                    continue
                t2 = unit.tags.get(s["line_start"])
                if t2:
                    props, obname = t2
                    break
        # the exit / call site, for reporting
        if site is None:
            for s in d.get("spans", []):
                if os.path.basename(s.get("file_name", "")) == gen_name and s["line_start"] in unit.linemap:
                    site = unit.linemap[s["line_start"]]
                    break
        kind = msg.split(":")[0]
        if obname is None:
            short = {"possible arithmetic underflow/overflow": "overflow",
                     "precondition not satisfied": "precondition",
                     "assertion failed": "assert",
                     "postcondition not satisfied": "postcondition"}.get(msg, kind.replace(" ", "_"))
            obname = "%s.%s" % (fn.name, short)
            props = list(fn.serves)
        ob = obname
        if site:
            ob_site = "%s@%s:%d" % (obname, site[0], site[1])
        else:
            ob_site = obname
        failures.append({
            "ob": ob, "ob_site": ob_site, "props": props or list(fn.serves), "kind": msg, "fn": fn.name,
            "fn_path": "%s :: %s" % (fn.file, fn.path),
            "repo_file": site[0] if site else fn.file, "repo_line": site[1] if site else fn.repo_line,
            "gen_line": line, "rendered": d.get("rendered", ""),
        })
    if run["results"] is None and not failures and not undecided:
        undecided.append("verus produced no result json (rc=%s): %s" % (run["rc"], run["stderr"][-500:]))
    elif run["results"] is not None:
        vr = run["results"].get("verification-results", {})
        if vr.get("encountered-vir-error"):
            undecided.append("verus VIR error")
        if not vr.get("success") and not failures and not undecided:
            undecided.append("verus reported failure without a mapped diagnostic: " + run["stderr"][-800:])
    return failures, undecided
