#!/usr/bin/env python3
"""Phase 1 of an intake: copy /tmp/seedout/<tag>/<k> into seeded/_candidates/<Cxx>/<next k> and remove the sub-agent's worktree.
usage: tools/intake_copy.py <Cxx> <tag>"""
import glob, os, shutil, subprocess, sys
pid, tag = sys.argv[1], sys.argv[2]
src = "/tmp/seedout/" + tag
existing = [int(os.path.basename(d).split("-")[1]) for d in glob.glob("/verif/seeded/%s-[0-9]*" % pid)]
existing += [int(os.path.basename(d)) for d in glob.glob("/verif/seeded/_candidates/%s/[0-9]*" % pid)]
k = max(existing + [0])
subprocess.run(["git", "-C", "/repo", "worktree", "remove", "--force", "/tmp/wt/" + tag], capture_output=True)
for d in sorted(glob.glob(src + "/[0-9]*")):
    if not os.path.exists(d + "/patch.diff") or not os.path.exists(d + "/demo.rs"):
        print("skip (incomplete):", d); continue
    k += 1
    dst = "/verif/seeded/_candidates/%s/%d" % (pid, k)
    os.makedirs(dst, exist_ok=True)
    for f in ("patch.diff", "demo.rs", "meta.json"):
        if os.path.exists(d + "/" + f):
            shutil.copy(d + "/" + f, dst + "/" + f)
    print("copied", d, "->", dst)
