"""Route K: Kani on a scratch copy of the whole crate with append-only injection.

Nothing inside a function body of the copy is changed: attribute lines are put
above named fn items and `#[cfg(kani)] #[path=..] mod ..;` lines are appended to
source files, so Kani compiles the repository's real MIR.
"""
import json
import os
import re
import shutil
import subprocess
import tempfile
import time

from .extract import Source, LostAnchor


def _prepare_copy(repo, verif, kcfg, scratch):
    subprocess.run(["rsync", "-a", "--delete", "--exclude", "target", "--exclude", ".git",
                    "--exclude", "wasm-tests", repo.rstrip("/") + "/", scratch + "/"], check=True)
    os.makedirs(os.path.join(scratch, ".cargo"), exist_ok=True)
    open(os.path.join(scratch, ".cargo", "config.toml"), "w").write("[net]\noffline = true\n")
    # contracts: attribute lines above named fns (append-only w.r.t. bodies)
    by_file = {}
    for c in kcfg.get("contracts", []):
        by_file.setdefault(c["file"], []).append(c)
    for file, cs in by_file.items():
        p = os.path.join(scratch, file)
        src = Source(p)
        edits = []
        for c in cs:
            it = src.find(c["path"])
            ls = src.src.rfind("\n", 0, it.start) + 1
            indent = src.src[ls:it.start]
            text = "".join(indent + "#[cfg_attr(kani, %s)]\n" % a for a in c["attrs"])
            edits.append((ls, text))
        edits.sort(reverse=True)
        s = src.src
        for off, t in edits:
            s = s[:off] + t + s[off:]
        open(p, "w").write(s)
    for inj in kcfg.get("inject", []):
        p = os.path.join(scratch, inj["file"])
        modname = "verif_kani_" + re.sub(r"\W", "_", os.path.splitext(inj["module"])[0])
        with open(p, "a") as fh:
            fh.write("\n#[cfg(kani)]\n#[path = \"%s\"]\nmod %s;\n"
                     % (os.path.join(verif, "kani", inj["module"]), modname))
    # crate-level feature gates some harness styles need
    for attr in kcfg.get("crate_attrs", []):
        p = os.path.join(scratch, "src", "lib.rs")
        s = open(p).read()
        # inner attributes must precede items but may follow the //! docs
        m = re.search(r"^(?!//!|\s*$)", s, re.M)
        s = s[:m.start()] + attr + "\n" + s[m.start():]
        open(p, "w").write(s)


_H = re.compile(r"^Checking harness (\S+?)\.\.\.", re.M)


def _parse(out):
    """split Kani output per harness (plain sequential output or `-j N` terse output)"""
    res = {}
    if re.search(r"^Thread \d+: Checking harness", out, re.M):
        cur = {}
        chunks = {}
        segs = re.split(r"^(Thread \d+): ?", out, flags=re.M)
        # segs = [pre, 'Thread 0', text, 'Thread 2', text, ...]
        for i in range(1, len(segs) - 1, 2):
            th, text = segs[i], segs[i + 1]
            m = re.match(r"Checking harness (\S+?)\.\.\.", text)
            if m:
                cur[th] = m.group(1)
                chunks.setdefault(m.group(1), "Checking harness %s...\n" % m.group(1))
                text = text[m.end():]
            if th in cur:
                chunks[cur[th]] += text
        out = "\n".join(chunks.values())
    pos = [(m.start(), m.group(1)) for m in _H.finditer(out)]
    for i, (off, name) in enumerate(pos):
        end = pos[i + 1][0] if i + 1 < len(pos) else len(out)
        chunk = out[off:end]
        st = "unknown"
        if "VERIFICATION:- SUCCESSFUL" in chunk:
            st = "ok"
        elif "VERIFICATION:- FAILED" in chunk:
            st = "failed"
        m = re.search(r"\*\* (\d+) of (\d+) failed", chunk)
        checks = (int(m.group(1)), int(m.group(2))) if m else None
        failed = re.findall(r"Failed Checks: (.*?)\n\s*File: \"(.*?)\", line (\d+)", chunk)
        unsat_cover = re.findall(r"Status: UNSATISFIABLE\s*\n\s*Description: \"(.*?)\"", chunk)
        unwind_fail = "unwinding assertion" in chunk and st == "failed" and any("unwinding" in f[0] for f in failed)
        # concrete playback values
        vals = []
        blocks = re.split(r"Concrete playback unit test for", chunk)[1:]
        blocks = [b for b in blocks if "Check for `cover`" not in b] or []
        for b in blocks[:1]:
            mp = re.search(r"let concrete_vals: Vec<Vec<u8>> = vec!\[(.*?)\n\s*\];", b, re.S)
            if mp:
                for mv in re.finditer(r"vec!\[([0-9, ]*)\]", mp.group(1)):
                    vals.append([int(x) for x in mv.group(1).split(",") if x.strip()])
        tm = re.search(r"Verification Time: ([0-9.]+)s", chunk)
        res[name] = {"status": st, "checks": checks, "failed": failed, "unsat_cover": unsat_cover,
                     "unwind_fail": unwind_fail, "concrete": vals,
                     "time_s": float(tm.group(1)) if tm else None,
                     "chunk_tail": "\n".join("Failed Checks: %s  File: %s line %s" % f for f in failed)[:1500]
                     + "\n" + (m.group(0) if m else "")}
    return res


def run_kani(repo, verif, kcfg, harnesses, tier):
    t0 = time.time()
    res = {"failures": [], "undecided": [], "harness_results": [], "stats": {}}
    scratch = tempfile.mkdtemp(prefix="repe-verif-kani-")
    try:
        try:
            _prepare_copy(repo, verif, kcfg, scratch)
        except LostAnchor as e:
            res["undecided"].append("lost anchor while injecting contracts: %s" % e)
            return res
        base = ["cargo", "kani", "--lib", "-Z", "function-contracts", "-Z", "stubbing"]
        if kcfg.get("features"):
            base += ["--features", kcfg["features"]]
        for x in kcfg.get("extra_args", []):
            base.append(x)
        cmd = base + ["-j", str(min(8, max(1, len(harnesses)))), "--output-format=terse"]
        for h in harnesses:
            cmd += ["--harness", h["name"]]
        env = dict(os.environ, CARGO_NET_OFFLINE="true")
        timeout = kcfg.get("timeout_s", 900 if tier == "quick" else 3600)
        out = ""
        try:
            p = subprocess.run(cmd, cwd=scratch, env=env, capture_output=True, text=True, timeout=timeout)
            out = p.stdout + "\n" + p.stderr
        except subprocess.TimeoutExpired as e:
            out = (e.stdout or b"").decode("utf-8", "replace") if isinstance(e.stdout, bytes) else (e.stdout or "")
            res["undecided"].append("cargo kani timed out after %ds" % timeout)
        # second pass, single-threaded, for the failing harnesses that can yield a replayable input
        first = _parse(out)
        again = [h for h in harnesses if h.get("replay") and any(
            (k == h["name"] or k.endswith("::" + h["name"])) and v["status"] == "failed" for k, v in first.items())]
        if again:
            cmd2 = base + ["--concrete-playback=print", "-Z", "concrete-playback"]
            for h in again:
                cmd2 += ["--harness", h["name"]]
            try:
                p2 = subprocess.run(cmd2, cwd=scratch, env=env, capture_output=True, text=True, timeout=timeout)
                out2 = p2.stdout + "\n" + p2.stderr
                second = _parse(out2)
                for k, v in second.items():
                    if v["status"] == "failed" and v["concrete"]:
                        first[k] = v
            except subprocess.TimeoutExpired:
                pass
        parsed = first
        res["stats"] = {"cmd": " ".join(cmd), "wall_s": round(time.time() - t0, 1)}
        if "error: could not compile" in out or "error[E" in out:
            res["undecided"].append("kani build failed: " + "\n".join(
                l for l in out.splitlines() if l.startswith("error"))[:1500])
        ok = 0
        for h in harnesses:
            short = h["name"]
            pr = None
            # exact name first, then a `::`-bounded suffix (never a bare suffix: `async_fleet::m::h` ends with `fleet::m::h`)
            for k, v in parsed.items():
                if k == short:
                    pr = v
                    break
            if pr is None:
                cands = [v for k, v in parsed.items() if k.endswith("::" + short)]
                if len(cands) == 1:
                    pr = cands[0]
                elif len(cands) > 1:
                    res["undecided"].append("harness name %s is ambiguous in Kani's output" % short)
            hr = {"name": short, "props": h["props"], "bounded": h.get("bounded"),
                  "status": pr["status"] if pr else "missing", "checks": pr["checks"] if pr else None,
                  "time_s": pr["time_s"] if pr else None, "fn": h.get("fn")}
            res["harness_results"].append(hr)
            if pr is None:
                res["undecided"].append("harness %s produced no verdict" % short)
                continue
            if pr["status"] == "ok":
                if pr["unsat_cover"]:
                    res["undecided"].append("harness %s: cover unsatisfied (vacuous): %s" % (short, pr["unsat_cover"]))
                else:
                    ok += 1
                continue
            if pr["status"] != "failed":
                res["undecided"].append("harness %s: no verdict (%s)" % (short, pr["chunk_tail"][-300:]))
                continue
            real = [f for f in pr["failed"] if "unwinding" not in f[0]]
            if not real:
                res["undecided"].append("harness %s: unwinding bound too small" % short)
                continue
            desc, file, line = real[0]
            rel = file
            if scratch in file:
                rel = os.path.relpath(file, scratch)
            replay = None
            if h.get("replay") and pr["concrete"]:
                flat = [b for v in pr["concrete"] for b in v]
                replay = {"entry": h["replay"]["entry"]}
                off = 0
                for (key, n) in h["replay"].get("layout", []):
                    replay[key] = flat[off:off + n]
                    off += n
                replay["kani_concrete_vals"] = pr["concrete"][:64]
            res["failures"].append({
                "ob": "kani.%s" % short.split("::")[-1], "ob_site": "kani.%s@%s:%s" % (short.split("::")[-1], rel, line),
                "props": h["props"], "kind": "kani check failed: " + desc.strip(), "fn": h.get("fn"),
                "fn_path": h.get("fn_path", h.get("fn")), "repo_file": rel, "repo_line": int(line),
                "rendered": pr["chunk_tail"], "replay": replay,
            })
        res["stats"]["harnesses"] = len(harnesses)
        res["stats"]["harnesses_ok"] = ok
        res["stats"]["per_harness_s"] = {h["name"]: h["time_s"] for h in res["harness_results"]}
        return res
    finally:
        shutil.rmtree(scratch, ignore_errors=True)


def find_counterexample_for(kani_res, verus_failure):
    for kf in kani_res["failures"]:
        if kf.get("fn") and kf["fn"] == verus_failure.get("fn") and kf.get("replay"):
            return kf
    return None
