#!/bin/bash
# usage: tools/try_patch.sh <patch.diff> <Cxx> [tier]  -- apply to /repo (or $VERIF_REPO, with the machinery at $VERIF_HOME), run the check, always revert
set -u
P=$1; ID=$2; T=${3:-quick}
VH=${VERIF_HOME:-/verif}; VR=${VERIF_REPO:-/repo}
cd $VR || exit 9
if ! git diff --quiet; then echo "repo dirty"; exit 9; fi
if ! git apply "$P" 2>/tmp/apply.err; then
  if ! git apply --3way "$P" 2>>/tmp/apply.err; then echo "PATCH DOES NOT APPLY: $(head -3 /tmp/apply.err)"; git checkout HEAD -- . ; git reset -q; exit 8; fi
fi
git reset -q 2>/dev/null
# the evidence file describes the unchanged tree: keep it out of the way of a run on a patched tree
EV=$VH/evidence/$ID.json; SAVE=$(mktemp); [ -f "$EV" ] && cp "$EV" "$SAVE"
cd $VH && ./vc check "$ID" --tier "$T"; rc=$?
[ -s "$SAVE" ] && cp "$SAVE" "$EV"; rm -f "$SAVE"
cd $VR && git checkout -- . && git clean -fdq -e target
echo "rc=$rc"
exit $rc
