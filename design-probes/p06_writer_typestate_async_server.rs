use vstd::prelude::*;
verus! {
// ---- environment (assumed contracts) ----
#[derive(Clone, Copy)]
pub struct Duration;
pub struct Elapsed;
pub struct RepeError;
pub struct Writer { pub ghost_log: Ghost<Seq<u8>>, pub ghost_torn: Ghost<bool> }
impl Writer {
    pub closed spec fn log(&self) -> Seq<u8> { self.ghost_log@ }
    pub closed spec fn torn(&self) -> bool { self.ghost_torn@ }
    #[verifier::external_body]
    pub fn write_all(&mut self, b: &[u8]) -> (r: Result<(), RepeError>)
        requires !old(self).torn()
        ensures r.is_ok() ==> !final(self).torn() && final(self).log() == old(self).log() + b@,
                r.is_err() ==> final(self).torn(),
    { unimplemented!() }
    #[verifier::external_body]
    pub fn flush(&mut self) -> (r: Result<(), RepeError>)
        requires !old(self).torn()
        ensures r.is_ok() ==> !final(self).torn() && final(self).log() == old(self).log(),
                r.is_err() ==> final(self).torn(),
    { unimplemented!() }
}
// timeout(): a stalled inner op is an Err inside; wrapper may be Elapsed only if inner was not Ok
#[verifier::external_body]
pub fn timeout<T>(d: Duration, inner: Result<T, RepeError>) -> (r: Result<Result<T, RepeError>, Elapsed>)
    ensures inner.is_ok() ==> r == Ok::<Result<T,RepeError>,Elapsed>(inner),
{ unimplemented!() }

#[verifier::external_body]
fn next_request(buf: &mut Vec<u8>) -> (r: Result<(), RepeError>) { unimplemented!() }

fn write_view_response(writer: &mut Writer, body: &[u8], query: &[u8]) -> (r: Result<(), RepeError>)
    requires !old(writer).torn()
    ensures r.is_ok() ==> !final(writer).torn(), r.is_err() ==> final(writer).torn()
{
    if !query.is_empty() {
        writer.write_all(query)?;
    }
    if !body.is_empty() {
        writer.write_all(body)?;
    }
    Ok(())
}

#[verifier::exec_allows_no_decreases_clause]
fn handle_connection(mut writer: Writer, write_timeout: Option<Duration>) -> (r: Result<(), RepeError>)
    requires !writer.torn()
{
    let mut buf = Vec::new();
    loop
        invariant !writer.torn()
    {
        next_request(&mut buf)?;
        let echo = buf.as_slice();
        if let Some(dur) = write_timeout {
            timeout(dur, write_view_response(&mut writer, echo, echo)).ok();
            timeout(dur, writer.flush()).ok();
        } else {
            write_view_response(&mut writer, echo, echo)?;
            writer.flush()?;
        }
    }
}
} // verus!
fn main() {}
