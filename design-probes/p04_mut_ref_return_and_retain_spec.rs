#![feature(allocator_api)]
use vstd::prelude::*;
use std::collections::HashMap;
verus! {
struct P { a: u64, b: u64 }

fn pick(p: &mut P) -> (r: &mut u64)
  ensures *r == old(p).a, final(p).b == old(p).b, final(p).a == *final(r)
{
    &mut p.a
}

fn user(p: &mut P)
  ensures final(p).a == 7, final(p).b == old(p).b
{
    let r = pick(p);
    *r = 7;
}

pub assume_specification<T, A: std::alloc::Allocator, F: FnMut(&T) -> bool> [Vec::<T,A>::retain] (v: &mut Vec<T,A>, f: F)
  ensures final(v)@.len() <= old(v)@.len();

fn retain_test(v: &mut Vec<u64>) {
    let x = 3u64;
    v.retain(|k| *k != x);
}
} // verus!
fn main() {}
