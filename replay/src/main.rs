//! Replays a counterexample / finding file against the real repe library.
//!
//! usage: repe-verif-replay <file.json>          (parent: runs the child, classifies the outcome)
//!        repe-verif-replay --child <file.json>  (child: executes the entry in-process)
//!
//! The file is JSON: {"entry": "<name>", ...entry specific inputs...}.
//! Parent prints one line `REPLAY entry=<e> outcome=<ok|err|panic|abort|violation> detail=<...>`
//! and exits 1 when the outcome demonstrates a violation (panic, abort, or the
//! entry's own property check failed), 0 otherwise.
use serde_json::Value;
mod ported;
use std::io::Read;
use std::process::Command;

fn hex(s: &str) -> Vec<u8> {
    let s: String = s.chars().filter(|c| !c.is_whitespace()).collect();
    (0..s.len() / 2)
        .map(|i| u8::from_str_radix(&s[2 * i..2 * i + 2], 16).expect("hex"))
        .collect()
}

/// A reader that hands out the script in pieces of the given sizes, then EOF.
struct Script {
    data: Vec<u8>,
    pos: usize,
    step: usize,
}
impl Read for Script {
    fn read(&mut self, buf: &mut [u8]) -> std::io::Result<usize> {
        let n = buf.len().min(self.step.max(1)).min(self.data.len() - self.pos);
        buf[..n].copy_from_slice(&self.data[self.pos..self.pos + n]);
        self.pos += n;
        Ok(n)
    }
}

fn bytes_of(v: &Value, key: &str) -> Vec<u8> {
    if let Some(s) = v.get(key).and_then(|x| x.as_str()) {
        return hex(s);
    }
    if let Some(a) = v.get(key).and_then(|x| x.as_array()) {
        return a.iter().map(|b| b.as_u64().unwrap() as u8).collect();
    }
    panic!("replay file lacks byte field `{key}`");
}

/// Returns Ok(description) when the library behaved (returned Ok/Err as the
/// property allows), Err(description) when the entry's own check found a violation.
fn run(v: &Value) -> Result<String, String> {
    let entry = v["entry"].as_str().expect("entry");
    if let Some(r) = ported::run(entry, v) {
        return r;
    }
    match entry {
        "header_decode" => {
            let b = bytes_of(v, "input");
            match repe::Header::decode(&b) {
                Ok(h) => {
                    // C01/C02 check: accepted header must be consistent and re-encode to the input
                    let sum = 48u128 + h.query_length as u128 + h.body_length as u128;
                    if h.length as u128 != sum || h.spec != 0x1507 {
                        return Err(format!("accepted inconsistent header {h:?}"));
                    }
                    if h.encode()[..] != b[..48] {
                        return Err(format!("decode/encode not lossless: {h:?}"));
                    }
                    Ok(format!("Ok({h:?})"))
                }
                Err(e) => Ok(format!("Err({e})")),
            }
        }
        "message_from_slice" | "message_from_slice_exact" | "view_from_slice" | "view_from_slice_exact" => {
            let b = bytes_of(v, "input");
            let exact = entry.ends_with("_exact");
            let (hdr, q, body): (repe::Header, Vec<u8>, Vec<u8>) = if entry.starts_with("message") {
                let r = if exact { repe::Message::from_slice_exact(&b) } else { repe::Message::from_slice(&b) };
                match r {
                    Ok(m) => (m.header, m.query, m.body),
                    Err(e) => return Ok(format!("Err({e})")),
                }
            } else {
                let r = if exact { repe::MessageView::from_slice_exact(&b) } else { repe::MessageView::from_slice(&b) };
                match r {
                    Ok(m) => (m.header, m.query.to_vec(), m.body.to_vec()),
                    Err(e) => return Ok(format!("Err({e})")),
                }
            };
            let total = 48 + q.len() + body.len();
            if hdr.spec != 0x1507
                || hdr.query_length as usize != q.len()
                || hdr.body_length as usize != body.len()
                || hdr.length as usize != total
            {
                return Err(format!("accepted inconsistent frame: {hdr:?} q={} b={}", q.len(), body.len()));
            }
            if b.len() < total || (exact && b.len() != total) {
                return Err(format!("accepted a buffer of {} bytes for a frame of {}", b.len(), total));
            }
            if b[48..48 + q.len()] != q[..] || b[48 + q.len()..total] != body[..] {
                return Err("returned query/body differ from the input bytes".into());
            }
            Ok(format!("Ok(frame of {total} bytes)"))
        }
        "read_message" | "read_message_into" | "read_message_async" | "read_message_into_async" => {
            let data = bytes_of(v, "stream");
            let step = v.get("step").and_then(|x| x.as_u64()).unwrap_or(u64::MAX) as usize;
            let frame: Result<Vec<u8>, String> = match entry {
                "read_message" => {
                    let mut s = Script { data: data.clone(), pos: 0, step };
                    repe::read_message(&mut s).map(|m| m.to_vec()).map_err(|e| e.to_string())
                }
                "read_message_into" => {
                    let mut s = Script { data: data.clone(), pos: 0, step };
                    let mut buf = Vec::new();
                    repe::read_message_into(&mut s, &mut buf).map(|_| buf).map_err(|e| e.to_string())
                }
                "read_message_async" => {
                    let rt = tokio::runtime::Builder::new_current_thread().enable_all().build().unwrap();
                    let mut s: &[u8] = &data;
                    rt.block_on(repe::async_io::read_message_async(&mut s)).map(|m| m.to_vec()).map_err(|e| e.to_string())
                }
                _ => {
                    let rt = tokio::runtime::Builder::new_current_thread().enable_all().build().unwrap();
                    let mut s: &[u8] = &data;
                    let mut buf = Vec::new();
                    rt.block_on(repe::async_io::read_message_into_async(&mut s, &mut buf)).map(|_| buf).map_err(|e| e.to_string())
                }
            };
            match frame {
                Ok(f) => {
                    if f.len() > data.len() || f[..] != data[..f.len()] {
                        return Err(format!("reader returned Ok with {} bytes that are not a prefix of the stream ({} bytes)", f.len(), data.len()));
                    }
                    match repe::Message::from_slice_exact(&f) {
                        Ok(_) => Ok(format!("Ok(frame of {} bytes)", f.len())),
                        Err(e) => Err(format!("reader returned Ok for a non-frame: {e}")),
                    }
                }
                Err(e) => Ok(format!("Err({e})")),
            }
        }
        "transfer_history" => {
            // {"window": u64, "ring_capacity": u64 (optional), "ops": [["record_sent", n], ["record_ack", file, off],
            //  ["cancel", "reason"], ["advance", file], ["wait_credit", chunk_len], ["push_replay", off, data_len, wire_len],
            //  ["resume", file, off], ["wait_reconnect"]]}
            // Checked against an independent mathematical-integer model of C11/C13.
            use repe::stream::{CreditError, TransferControl};
            let window = v["window"].as_u64().unwrap();
            let ctl = match v.get("ring_capacity").and_then(|x| x.as_u64()) {
                Some(c) => TransferControl::with_replay_capacity(window, c),
                None => TransferControl::new(window),
            };
            let mut first_cancel: Option<String> = None;
            let mut log = Vec::new();
            for op in v["ops"].as_array().unwrap() {
                let name = op[0].as_str().unwrap();
                let (s0, a0) = ctl.offsets();
                match name {
                    "record_sent" => ctl.record_sent(op[1].as_u64().unwrap()),
                    "record_ack" => {
                        ctl.record_ack(op[1].as_u64().unwrap() as u32, op[2].as_u64().unwrap());
                    }
                    "cancel" => {
                        let r = op[1].as_str().unwrap().to_string();
                        ctl.cancel(r.clone());
                        if first_cancel.is_none() {
                            first_cancel = Some(r);
                        }
                        if ctl.cancel_reason() != first_cancel {
                            return Err(format!("cancel reason {:?} != first reason {:?}", ctl.cancel_reason(), first_cancel));
                        }
                    }
                    "advance" => ctl.advance_to_file(op[1].as_u64().unwrap() as u32),
                    "wait_credit" => {
                        let c = op[1].as_u64().unwrap();
                        let r = ctl.wait_for_credit(c, std::time::Instant::now());
                        let (s, a) = ctl.offsets();
                        let inflight = s as u128 - a as u128;
                        match r {
                            Ok(()) => {
                                if first_cancel.is_some() {
                                    return Err("credit granted after cancel".into());
                                }
                                if !(inflight == 0 || inflight + c as u128 <= window as u128) {
                                    return Err(format!(
                                        "credit granted although in_flight {inflight} + chunk {c} > window {window}"
                                    ));
                                }
                            }
                            Err(CreditError::Cancelled(r)) => {
                                if Some(r.clone()) != first_cancel {
                                    return Err(format!("wait reported cancel reason {r:?}, first was {first_cancel:?}"));
                                }
                            }
                            Err(CreditError::Timeout) => {
                                if first_cancel.is_some() {
                                    return Err("wait returned Timeout after cancel".into());
                                }
                            }
                        }
                    }
                    other => panic!("unknown op {other}"),
                }
                let (s1, a1) = ctl.offsets();
                if a1 > s1 {
                    return Err(format!("after {name}: acked {a1} > sent {s1}"));
                }
                log.push(format!("{name}:({s0},{a0})->({s1},{a1})"));
            }
            Ok(log.join(" "))
        }
        "client_write_timeout_then_call" => {
            // C05 scenario for the blocking client: a write timeout interrupts a large request mid-frame
            // (the peer is stalled), then the peer resumes reading and the application makes another call
            // on the same client. The bytes the peer receives must be whole frames only: an interrupted
            // frame may be the LAST thing on the connection, never followed by further frames.
            use std::io::Read as _;
            use std::net::TcpListener;
            use std::time::Duration;
            let big = v.get("big_bytes").and_then(|x| x.as_u64()).unwrap_or(32 << 20) as usize;
            let listener = TcpListener::bind("127.0.0.1:0").unwrap();
            let addr = listener.local_addr().unwrap();
            let peer = std::thread::spawn(move || {
                let (mut s, _) = listener.accept().unwrap();
                std::thread::sleep(Duration::from_millis(600)); // stalled peer
                s.set_read_timeout(Some(Duration::from_millis(800))).unwrap();
                let mut all = Vec::new();
                let mut buf = vec![0u8; 1 << 16];
                loop {
                    match s.read(&mut buf) {
                        Ok(0) => break,
                        Ok(n) => all.extend_from_slice(&buf[..n]),
                        Err(_) => break,
                    }
                }
                all
            });
            let client = repe::Client::connect(addr).unwrap();
            client.set_write_timeout(Some(Duration::from_millis(100))).unwrap();
            let payload = vec![0x5Au8; big];
            let first = client.notify_with_formats("/big", 1, Some(&payload[..]), 0u16);
            let first_s = match &first { Ok(_) => "Ok".to_string(), Err(e) => format!("Err({e})") };
            std::thread::sleep(Duration::from_millis(700)); // peer drains meanwhile
            let second = client.notify_with_formats("/small", 1, Some(&b"hi"[..]), 0u16);
            let second_s = match &second { Ok(_) => "Ok".to_string(), Err(e) => format!("Err({e})") };
            drop(client);
            let bytes = peer.join().unwrap();
            // walk the received stream frame by frame
            let mut off = 0usize;
            let mut frames = 0;
            while off < bytes.len() {
                if bytes.len() - off < 48 {
                    break; // truncated tail: allowed only at the very end
                }
                match repe::Header::decode(&bytes[off..off + 48]) {
                    Ok(h) => {
                        let total = h.length as usize;
                        if off + total > bytes.len() {
                            off = bytes.len(); // truncated last frame: fine, nothing follows it
                            break;
                        }
                        off += total;
                        frames += 1;
                    }
                    Err(e) => {
                        return Err(format!(
                            "peer stream desynchronised at byte {off} of {} after {frames} whole frames ({e}); first call: {first_s}; second call: {second_s}",
                            bytes.len()
                        ));
                    }
                }
            }
            // a torn frame swallows whatever follows it: look for the second request's bytes inside the
            // region the torn frame claims
            let torn_tail = off == bytes.len() && {
                let mut o = 0usize;
                let mut torn = false;
                while o + 48 <= bytes.len() {
                    let h = repe::Header::decode(&bytes[o..o + 48]).unwrap();
                    if o + h.length as usize > bytes.len() {
                        torn = true;
                        break;
                    }
                    o += h.length as usize;
                }
                torn || (bytes.len() - o > 0 && bytes.len() - o < 48)
            };
            let second_on_wire = bytes.windows(6).any(|w| w == b"/small");
            if torn_tail && second_on_wire {
                return Err(format!(
                    "a frame was written after an interrupted (torn) frame: first call {first_s}, second call {second_s}; peer received {} bytes, {frames} whole frames, then a torn frame that swallows the second request",
                    bytes.len()
                ));
            }
            Ok(format!("first={first_s} second={second_s} received={} bytes, {frames} whole frames", bytes.len()))
        }
        "async_server_write_timeout" | "blocking_server_write_timeout" => {
            // C05 scenario for a TCP server: write_timeout configured, response larger than the socket
            // buffers, peer stalled past the timeout, then a second request on the same connection.
            // Bounded: one scenario (sizes and delays below).
            use std::io::{Read as _, Write as _};
            use std::time::Duration;
            let big = v.get("big_bytes").and_then(|x| x.as_u64()).unwrap_or(8 << 20) as usize;
            let router = repe::Router::new()
                .with_json("/big", move |_v: serde_json::Value| Ok(serde_json::Value::String("x".repeat(big))))
                .with_json("/small", |_v: serde_json::Value| Ok(serde_json::json!("ok")));
            let addr;
            let _rt;
            if entry == "async_server_write_timeout" {
                let rt = tokio::runtime::Builder::new_multi_thread().worker_threads(2).enable_all().build().unwrap();
                let listener = rt.block_on(repe::AsyncServer::listen("127.0.0.1:0")).unwrap();
                addr = listener.local_addr().unwrap();
                let server = repe::AsyncServer::new(router).write_timeout(Some(Duration::from_millis(100)));
                rt.spawn(async move {
                    let _ = server.serve(listener).await;
                });
                _rt = Some(rt);
            } else {
                let server = repe::Server::new(router).write_timeout(Some(Duration::from_millis(100)));
                let listener = server.listen("127.0.0.1:0").unwrap();
                addr = listener.local_addr().unwrap();
                std::thread::spawn(move || {
                    let _ = server.serve(listener);
                });
                _rt = None;
            }
            let mut s = std::net::TcpStream::connect(addr).unwrap();
            let req = |id: u64, path: &str| {
                repe::Message::builder().id(id).query_str(path).query_format(repe::QueryFormat::JsonPointer)
                    .body_json(&serde_json::json!(null)).unwrap().build().to_vec()
            };
            s.write_all(&req(1, "/big")).unwrap();
            std::thread::sleep(Duration::from_millis(2500)); // stalled reader: the server's write times out
            let _ = s.write_all(&req(2, "/small"));
            s.set_read_timeout(Some(Duration::from_millis(1500))).unwrap();
            let mut bytes = Vec::new();
            let mut buf = vec![0u8; 1 << 16];
            loop {
                match s.read(&mut buf) {
                    Ok(0) => break,
                    Ok(n) => bytes.extend_from_slice(&buf[..n]),
                    Err(_) => break,
                }
            }
            let mut off = 0usize;
            let mut frames = 0;
            while off + 48 <= bytes.len() {
                match repe::Header::decode(&bytes[off..off + 48]) {
                    Ok(h) => {
                        if off + h.length as usize > bytes.len() {
                            // torn frame: nothing may follow it -- look for the second response inside it
                            let tail = &bytes[off + 48..];
                            let has_second = tail.windows(4).any(|w| w == b"\"ok\"");
                            if has_second {
                                return Err(format!("response 2 was written after a torn response 1: {} bytes received, torn frame declares {} bytes", bytes.len(), h.length));
                            }
                            break;
                        }
                        off += h.length as usize;
                        frames += 1;
                    }
                    Err(e) => return Err(format!("client stream desynchronised at byte {off} of {} after {frames} whole frames: {e}", bytes.len())),
                }
            }
            Ok(format!("received {} bytes, {frames} whole frames", bytes.len()))
        }
        "svs_pull_sweep" => {
            // Bounded stand-in for C09/C10: producers writing n bytes (n around every chunk boundary up to 3 chunks)
            // and then either finishing or failing; pulled with pull_to_vec / pull_to_file (blocking client) and
            // pull_to_file_async (async client), with and without zstd. Checks: a clean stream reproduces the bytes
            // exactly; a failed producer yields an error, leaves the destination as it was (absent or previous
            // content) and leaves no temp sibling.
            use repe::value_stream::{Compression, RouterValueStreamExt, StreamOpts};
            use std::io::Write as _;
            let chunk: usize = v.get("chunk_bytes").and_then(|x| x.as_u64()).unwrap_or(1024) as usize;
            let dir = std::env::temp_dir().join(format!("repe-verif-svs-{}", std::process::id()));
            let _ = std::fs::remove_dir_all(&dir);
            std::fs::create_dir_all(&dir).unwrap();
            let mut cases = 0;
            let rt = tokio::runtime::Builder::new_multi_thread().worker_threads(2).enable_all().build().unwrap();
            for compression in [Compression::None, Compression::Zstd] {
                let cname = if matches!(compression, Compression::None) { "none" } else { "zstd" };
                let router = repe::Router::new().with_writer_stream(
                    repe::BodyFormat::RawBinary,
                    move |resource: &str| {
                        // resource = "<n>:<ok|fail>"
                        let mut it = resource.split(':');
                        let n: usize = it.next()?.parse().ok()?;
                        let fail = it.next()? == "fail";
                        Some(move |w: &mut dyn std::io::Write| -> std::io::Result<()> {
                            let data: Vec<u8> = (0..n).map(|i| (i * 7 + 3) as u8).collect();
                            w.write_all(&data)?;
                            if fail { Err(std::io::Error::other("producer aborted")) } else { Ok(()) }
                        })
                    },
                    StreamOpts { chunk_bytes: chunk, compression, zstd_level: 3, session_depth: 2 },
                );
                let server = repe::Server::new(router);
                let listener = server.listen("127.0.0.1:0").unwrap();
                let addr = listener.local_addr().unwrap();
                std::thread::spawn(move || { let _ = server.serve(listener); });
                let client = repe::Client::connect(addr).map_err(|e| e.to_string())?;
                let aclient = rt.block_on(repe::AsyncClient::connect(addr)).map_err(|e| e.to_string())?;
                let mut sizes = vec![0usize, 1];
                for k in 1..=3usize { for d in [-1i64, 0, 1] { sizes.push(((k * chunk) as i64 + d) as usize); } }
                for &n in &sizes {
                    let expect: Vec<u8> = (0..n).map(|i| (i * 7 + 3) as u8).collect();
                    for fail in [false, true] {
                        let res = format!("{n}:{}", if fail { "fail" } else { "ok" });
                        cases += 1;
                        // in-memory pull
                        let got = repe::pull_to_vec(&client, &res);
                        match (&got, fail) {
                            (Ok(b), false) if *b == expect => {}
                            (Err(_), true) => {}
                            (Ok(b), false) => return Err(format!("[{cname}] pull_to_vec({res}) returned {} bytes that differ from the {} produced", b.len(), n)),
                            (Ok(b), true) => return Err(format!("[{cname}] pull_to_vec({res}) returned Ok({} bytes) although the producer failed", b.len())),
                            (Err(e), false) => return Err(format!("[{cname}] pull_to_vec({res}) failed on a clean stream: {e}")),
                        }
                        for (which, pre_existing) in [("sync", false), ("sync", true), ("async", false), ("async", true)] {
                            let path = dir.join(format!("out-{cname}-{n}-{fail}-{which}-{pre_existing}.bin"));
                            let part = { let mut s = path.file_name().unwrap().to_os_string(); s.push(".svspart"); path.with_file_name(s) };
                            if pre_existing {
                                std::fs::File::create(&path).unwrap().write_all(b"previous").unwrap();
                                // ... and a longer temp file left behind by an earlier, killed pull of the same destination
                                std::fs::write(&part, vec![0xEEu8; 3 * chunk + 777]).unwrap();
                            }
                            // a neighbour that shares the destination's stem: a pull may touch its destination and its own temp file only
                            let neighbour = path.with_extension("svspart");
                            std::fs::write(&neighbour, b"neighbour").unwrap();
                            let r: Result<(), String> = if which == "sync" {
                                repe::pull_to_file(&client, &res, &path).map_err(|e| e.to_string())
                            } else {
                                rt.block_on(repe::pull_to_file_async(&aclient, &res, &path)).map(|_| ()).map_err(|e| e.to_string())
                            };
                            if fail {
                                if r.is_ok() { return Err(format!("[{cname}] {which} pull_to_file({res}) returned Ok although the producer failed")); }
                                let now = std::fs::read(&path).ok();
                                let want: Option<Vec<u8>> = if pre_existing { Some(b"previous".to_vec()) } else { None };
                                if now != want {
                                    return Err(format!("[{cname}] {which} pull_to_file({res}) failed but the destination changed: {:?} bytes now, expected {:?}",
                                        now.map(|b| b.len()), want.map(|b| b.len())));
                                }
                            } else {
                                if let Err(e) = r { return Err(format!("[{cname}] {which} pull_to_file({res}) failed on a clean stream: {e}")); }
                                let now = std::fs::read(&path).map_err(|e| e.to_string())?;
                                if now != expect { return Err(format!("[{cname}] {which} pull_to_file({res}) published {} bytes that differ from the {} produced", now.len(), n)); }
                            }
                            if part.exists() { return Err(format!("[{cname}] {which} pull_to_file({res}) left a temp file behind")); }
                            if std::fs::read(&neighbour).ok().as_deref() != Some(&b"neighbour"[..]) {
                                return Err(format!("[{cname}] {which} pull_to_file({res}) to {:?} clobbered or removed the unrelated file {:?}", path.file_name().unwrap(), neighbour.file_name().unwrap()));
                            }
                            let _ = std::fs::remove_file(&neighbour);
                        }
                    }
                }
            }
            // ---- every kind of producer failure is a failure for the consumer (never a clean end), at and off chunk boundaries ----
            {
                use std::io::ErrorKind as K;
                let kinds: Vec<(&'static str, K)> = vec![("other", K::Other), ("brokenpipe", K::BrokenPipe), ("unexpectedeof", K::UnexpectedEof), ("connectionreset", K::ConnectionReset),
                    ("connectionaborted", K::ConnectionAborted), ("wouldblock", K::WouldBlock), ("timedout", K::TimedOut), ("interrupted", K::Interrupted), ("writezero", K::WriteZero), ("invaliddata", K::InvalidData)];
                for compression in [Compression::None, Compression::Zstd] {
                    let cname = if matches!(compression, Compression::None) { "none" } else { "zstd" };
                    let kinds2 = kinds.clone();
                    let router = repe::Router::new().with_writer_stream(
                        repe::BodyFormat::RawBinary,
                        move |resource: &str| {
                            let mut it = resource.split(':');
                            let n: usize = it.next()?.parse().ok()?;
                            let kind = kinds2.iter().find(|k| Some(k.0) == it.clone().next()).map(|k| k.1)?;
                            Some(move |w: &mut dyn std::io::Write| -> std::io::Result<()> {
                                let data: Vec<u8> = (0..n).map(|i| (i * 7 + 3) as u8).collect();
                                w.write_all(&data)?;
                                Err(std::io::Error::new(kind, "producer aborted"))
                            })
                        },
                        StreamOpts { chunk_bytes: chunk, compression, zstd_level: 3, session_depth: 2 },
                    );
                    let server = repe::Server::new(router);
                    let listener = server.listen("127.0.0.1:0").unwrap();
                    let addr = listener.local_addr().unwrap();
                    std::thread::spawn(move || { let _ = server.serve(listener); });
                    let client = repe::Client::connect(addr).map_err(|e| e.to_string())?;
                    for n in [0usize, 1, chunk, chunk + chunk / 2, 3 * chunk + 1] {
                        for (kname, _) in &kinds {
                            let res = format!("{n}:{kname}");
                            cases += 1;
                            if let Ok(b) = repe::pull_to_vec(&client, &res) {
                                return Err(format!("[{cname}] a producer that wrote {n} bytes and then failed with io::ErrorKind::{kname} was delivered as a clean stream of {} bytes", b.len()));
                            }
                            let path = dir.join(format!("kind-{cname}-{n}-{kname}.bin"));
                            if repe::pull_to_file(&client, &res, &path).is_ok() || path.exists() {
                                return Err(format!("[{cname}] pull_to_file published a file for a producer that failed with io::ErrorKind::{kname} after {n} bytes"));
                            }
                        }
                    }
                }
            }
            // ---- reader producers: the source may return short reads anywhere; only Ok(0) ends it ----
            {
                struct Short { data: Vec<u8>, pos: usize, step: usize }
                impl std::io::Read for Short {
                    fn read(&mut self, b: &mut [u8]) -> std::io::Result<usize> {
                        let n = b.len().min(self.step).min(self.data.len() - self.pos);
                        b[..n].copy_from_slice(&self.data[self.pos..self.pos + n]);
                        self.pos += n;
                        Ok(n)
                    }
                }
                for compression in [Compression::None, Compression::Zstd] {
                    let cname = if matches!(compression, Compression::None) { "none" } else { "zstd" };
                    let router = repe::Router::new().with_reader_stream(
                        move |resource: &str| -> Option<Box<dyn std::io::Read + Send>> {
                            let mut it = resource.split(':');
                            let n: usize = it.next()?.parse().ok()?;
                            let data: Vec<u8> = (0..n).map(|i| (i * 11 + 5) as u8).collect();
                            Some(match it.next()? {
                                "cursor" => Box::new(std::io::Cursor::new(data)),
                                "chain" => { let cut = n / 3; let tail = data[cut..].to_vec(); let head = data[..cut].to_vec(); Box::new(std::io::Read::chain(std::io::Cursor::new(head), std::io::Cursor::new(tail))) }
                                "onebyte" => Box::new(Short { data, pos: 0, step: 1 }),
                                "short100" => Box::new(Short { data, pos: 0, step: 100 }),
                                _ => return None,
                            })
                        },
                        StreamOpts { chunk_bytes: chunk, compression, zstd_level: 3, session_depth: 2 },
                    );
                    let server = repe::Server::new(router);
                    let listener = server.listen("127.0.0.1:0").unwrap();
                    let addr = listener.local_addr().unwrap();
                    std::thread::spawn(move || { let _ = server.serve(listener); });
                    let client = repe::Client::connect(addr).map_err(|e| e.to_string())?;
                    for n in [0usize, 1, chunk - 1, chunk, chunk + 1, 3 * chunk, 3 * chunk + 7] {
                        let expect: Vec<u8> = (0..n).map(|i| (i * 11 + 5) as u8).collect();
                        for kind in ["cursor", "chain", "onebyte", "short100"] {
                            cases += 1;
                            let got = repe::pull_to_vec(&client, &format!("{n}:{kind}")).map_err(|e| format!("[{cname}] reader stream {n}:{kind} failed: {e}"))?;
                            if got != expect { return Err(format!("[{cname}] a {kind} reader source of {n} bytes was delivered as {} bytes (a short read is not end of input; only Ok(0) is)", got.len())); }
                        }
                    }
                }
            }
            // ---- reader producers that FAIL part-way: whatever the error kind, the consumer must see a failure, never a clean end ----
            {
                use std::io::ErrorKind as K;
                struct Failing { data: Vec<u8>, pos: usize, kind: K, interrupted_once: bool }
                impl std::io::Read for Failing {
                    fn read(&mut self, b: &mut [u8]) -> std::io::Result<usize> {
                        if self.pos >= self.data.len() {
                            // `Interrupted` is retried by every std reader loop: deliver it once, then fail for good
                            if self.kind == K::Interrupted && !self.interrupted_once { self.interrupted_once = true; return Err(std::io::Error::new(K::Interrupted, "retry")); }
                            let k = if self.kind == K::Interrupted { K::Other } else { self.kind };
                            return Err(std::io::Error::new(k, "source failed part-way"));
                        }
                        let n = b.len().min(300).min(self.data.len() - self.pos);
                        b[..n].copy_from_slice(&self.data[self.pos..self.pos + n]);
                        self.pos += n;
                        Ok(n)
                    }
                }
                let kinds: Vec<(&'static str, K)> = vec![("other", K::Other), ("unexpectedeof", K::UnexpectedEof), ("brokenpipe", K::BrokenPipe), ("connectionreset", K::ConnectionReset), ("timedout", K::TimedOut), ("wouldblock", K::WouldBlock), ("interrupted", K::Interrupted), ("invaliddata", K::InvalidData)];
                for compression in [Compression::None, Compression::Zstd] {
                    let cname = if matches!(compression, Compression::None) { "none" } else { "zstd" };
                    let kinds2 = kinds.clone();
                    let router = repe::Router::new().with_reader_stream(
                        move |resource: &str| { let mut it = resource.split(':'); let n: usize = it.next()?.parse().ok()?; let kind = kinds2.iter().find(|k| Some(k.0) == it.clone().next()).map(|k| k.1)?; Some(Failing { data: (0..n).map(|i| (i * 3 + 1) as u8).collect(), pos: 0, kind, interrupted_once: false }) },
                        StreamOpts { chunk_bytes: chunk, compression, zstd_level: 3, session_depth: 2 },
                    );
                    let server = repe::Server::new(router);
                    let listener = server.listen("127.0.0.1:0").unwrap();
                    let addr = listener.local_addr().unwrap();
                    std::thread::spawn(move || { let _ = server.serve(listener); });
                    let client = repe::Client::connect(addr).map_err(|e| e.to_string())?;
                    for n in [0usize, 700, chunk, 2 * chunk + 5] { for (kname, _) in &kinds {
                        cases += 1;
                        if let Ok(b) = repe::pull_to_vec(&client, &format!("{n}:{kname}")) { return Err(format!("[{cname}] a reader source that failed with io::ErrorKind::{kname} after {n} bytes was delivered as a clean stream of {} bytes", b.len())); }
                    } }
                }
            }
            // ---- interleaved streams on one connection: each reproduces its own producer's bytes and ends once ----
            {
                #[derive(serde::Serialize)] struct OpenReq { resource: String }
                #[derive(serde::Deserialize)] #[allow(dead_code)] struct OpenResp { version: u8, stream_id: u64, format: u16, compression: u8 }
                #[derive(serde::Serialize)] struct NextReq { stream_id: u64 }
                let blob = |tag: u8, len: usize| -> Vec<u8> { (0..len).map(|i| tag ^ (i as u8).wrapping_mul(31)).collect() };
                let router = repe::Router::new().with_reader_stream(
                    move |resource: &str| { let (t, n) = match resource { "a" => (0x11u8, 1000usize), "b" => (0x77, 1500), "c" => (0xC3, 700), "d" => (0x05, 0), _ => return None }; Some(std::io::Cursor::new((0..n).map(|i| t ^ (i as u8).wrapping_mul(31)).collect::<Vec<u8>>())) },
                    StreamOpts { chunk_bytes: 256, compression: Compression::None, zstd_level: 3, session_depth: 2 },
                );
                let server = repe::Server::new(router);
                let listener = server.listen("127.0.0.1:0").unwrap();
                let addr = listener.local_addr().unwrap();
                std::thread::spawn(move || { let _ = server.serve(listener); });
                let client = repe::Client::connect(addr).map_err(|e| e.to_string())?;
                let open = |r: &str| -> Result<u64, String> {
                    let body = beve::to_vec(&OpenReq { resource: r.to_string() }).map_err(|e| e.to_string())?;
                    let resp = client.call_with_formats(repe::value_stream::ROUTE_OPEN, 1, Some(&body), repe::BodyFormat::Beve as u16).map_err(|e| e.to_string())?;
                    let o: OpenResp = beve::from_slice(&resp.body).map_err(|e| e.to_string())?;
                    Ok(o.stream_id)
                };
                let drain = |id: u64| -> Result<(Vec<u8>, usize), String> {
                    let mut out = Vec::new(); let mut lasts = 0;
                    for _ in 0..64 {
                        let body = beve::to_vec(&NextReq { stream_id: id }).map_err(|e| e.to_string())?;
                        let resp = client.call_with_formats(repe::value_stream::ROUTE_NEXT, 1, Some(&body), repe::BodyFormat::Beve as u16).map_err(|e| format!("next({id}): {e}"))?;
                        out.extend_from_slice(&resp.body);
                        if resp.query.len() == 1 && resp.query[0] == 1 { lasts += 1; break; }
                    }
                    Ok((out, lasts))
                };
                let a = open("a")?; let b = open("b")?;
                let (da, la) = drain(a)?;
                let c = open("c")?; let d = open("d")?;
                let (db, lb) = drain(b)?; let (dc, lc) = drain(c)?; let (dd, ld) = drain(d)?;
                let ids = [a, b, c, d];
                for i in 0..4 { for j in 0..i { if ids[i] == ids[j] && !(i == 2 && j == 0) && !(i == 3 && j == 0) { return Err(format!("two live streams were given the same stream id {} (ids in open order: {ids:?})", ids[i])); } } }
                for (name, got, lasts, want) in [("a", &da, la, blob(0x11, 1000)), ("b", &db, lb, blob(0x77, 1500)), ("c", &dc, lc, blob(0xC3, 700)), ("d", &dd, ld, blob(0x05, 0))] {
                    if *got != want || lasts != 1 { return Err(format!("interleaved streams (open a, open b, drain a, open c, open d, drain b, c, d): stream {name} delivered {} bytes with {lasts} end marker(s); its producer wrote {} bytes (ids {ids:?})", got.len(), want.len())); }
                }
                cases += 4;
            }
            // ---- verified pullers: a rejecting verifier publishes nothing, for trailer_len 0 and 8, blocking and async ----
            {
                let router = repe::Router::new().with_reader_stream(
                    move |resource: &str| { let n: usize = resource.parse().ok()?; Some(std::io::Cursor::new((0..n).map(|i| (i * 13 + 1) as u8).collect::<Vec<u8>>())) },
                    StreamOpts { chunk_bytes: chunk, compression: Compression::None, zstd_level: 3, session_depth: 2 },
                );
                let server = repe::Server::new(router);
                let listener = server.listen("127.0.0.1:0").unwrap();
                let addr = listener.local_addr().unwrap();
                std::thread::spawn(move || { let _ = server.serve(listener); });
                let client = repe::Client::connect(addr).map_err(|e| e.to_string())?;
                let aclient = rt.block_on(repe::AsyncClient::connect(addr)).map_err(|e| e.to_string())?;
                let n = 2 * chunk + 9;
                let all: Vec<u8> = (0..n).map(|i| (i * 13 + 1) as u8).collect();
                for trailer_len in [0usize, 8] {
                    for accept in [false, true] {
                        for which in ["sync", "async", "async-plain"] {
                            if which == "async-plain" && trailer_len != 0 { continue; }
                            cases += 1;
                            let path = dir.join(format!("ver-{trailer_len}-{accept}-{which}.bin"));
                            std::fs::write(&path, b"previous").unwrap();
                            let verdict = move |_d: Vec<u8>, _t: &[u8]| -> Result<(), repe::RepeError> { if accept { Ok(()) } else { Err(repe::RepeError::Io(std::io::Error::other("digest mismatch"))) } };
                            let r: Result<(), String> = match which {
                                "sync" => repe::value_stream::pull_to_file_trailer_verified(&client, &n.to_string(), &path, trailer_len, Vec::<u8>::new(), verdict).map_err(|e| e.to_string()),
                                "async" => rt.block_on(repe::value_stream::pull_to_file_trailer_verified_async(&aclient, &n.to_string(), &path, trailer_len, Vec::<u8>::new(), verdict)).map_err(|e| e.to_string()),
                                _ => rt.block_on(repe::value_stream::pull_to_file_verified_async(&aclient, &n.to_string(), &path, Vec::<u8>::new(), move |d: Vec<u8>| verdict(d, &[]))).map_err(|e| e.to_string()),
                            };
                            let now = std::fs::read(&path).map_err(|e| e.to_string())?;
                            if accept {
                                if let Err(e) = r { return Err(format!("{which} verified pull (trailer_len {trailer_len}) failed although the verifier accepted: {e}")); }
                                if now != all[..n - trailer_len] { return Err(format!("{which} verified pull (trailer_len {trailer_len}) published {} bytes; the payload is {} bytes", now.len(), n - trailer_len)); }
                            } else {
                                if r.is_ok() || now != b"previous" { return Err(format!("{which} verified pull (trailer_len {trailer_len}): the verifier rejected, yet the call returned {r:?} and the destination now holds {} bytes (a rejected pull must publish nothing)", now.len())); }
                            }
                            let part = { let mut s = path.file_name().unwrap().to_os_string(); s.push(".svspart"); path.with_file_name(s) };
                            if part.exists() { return Err(format!("{which} verified pull (trailer_len {trailer_len}) left a temp file behind")); }
                        }
                    }
                }
            }
            let _ = std::fs::remove_dir_all(&dir);
            Ok(format!("{cases} producer cases held"))
        }
        "fleet_outcome_sequences" => {
            // Bounded stand-in / replay for C19: a scripted node exhibits, per accepted connection, one of the
            // outcomes below; then it turns healthy. Checks: at most max_attempts connections are opened per call,
            // an application error / success is returned without a retry, and after the script a later call
            // succeeds (the node is not wedged).
            //   "close_after_accept" : accept, read the request, close without replying
            //   "reply_ok"           : answer, keep the connection open
            //   "reply_then_close"   : answer, then close the idle connection   ("closed while idle")
            //   "app_error"          : answer with an application error code
            use std::net::TcpListener;
            use std::sync::atomic::{AtomicUsize, Ordering};
            use std::sync::Arc;
            use std::time::Duration;
            let script: Vec<String> = v["script"].as_array().unwrap().iter().map(|x| x.as_str().unwrap().to_string()).collect();
            let max_attempts = v.get("max_attempts").and_then(|x| x.as_u64()).unwrap_or(2) as usize;
            let calls = v.get("calls").and_then(|x| x.as_u64()).unwrap_or(3) as usize;
            let use_async = v.get("async").and_then(|x| x.as_bool()).unwrap_or(false);
            let no_params = v.get("no_params").and_then(|x| x.as_bool()).unwrap_or(false);
            let listener = TcpListener::bind("127.0.0.1:0").unwrap();
            let port = listener.local_addr().unwrap().port();
            let accepted = Arc::new(AtomicUsize::new(0));
            let acc2 = accepted.clone();
            let reqs = Arc::new(AtomicUsize::new(0));
            let reqs2 = reqs.clone();
            std::thread::spawn(move || {
                for (i, conn) in listener.incoming().enumerate() {
                    let Ok(mut s) = conn else { break };
                    acc2.fetch_add(1, Ordering::SeqCst);
                    let mut mode = script.get(i).cloned().unwrap_or_else(|| "reply_ok".to_string());
                    let reqs3 = reqs2.clone();
                    std::thread::spawn(move || {
                        loop {
                            let Ok(req) = repe::read_message(&mut s) else { return };
                            if req.header.notify == 1 { continue; }
                            reqs3.fetch_add(1, Ordering::SeqCst);
                            let this = mode.clone();
                            // an application error is answered once; the same connection is healthy afterwards
                            if mode == "app_error" { mode = "reply_ok".to_string(); }
                            match this.as_str() {
                                "close_after_accept" => return,
                                // accepted, request read, then nothing: the caller's per-attempt timeout has to end the attempt
                                "silent" => { std::thread::sleep(Duration::from_secs(20)); return }
                                "app_error" => {
                                    let mut m = repe::Message::builder().id(req.header.id).error_code(repe::ErrorCode::ApplicationErrorBase)
                                        .body_utf8("nope").build();
                                    m.header.id = req.header.id;
                                    if repe::write_message(&mut s, &m).is_err() { return }
                                }
                                _ => {
                                    let m = repe::Message::builder().id(req.header.id).body_json(&serde_json::json!("pong")).unwrap().build();
                                    if repe::write_message(&mut s, &m).is_err() { return }
                                    use std::io::Write as _;
                                    let _ = s.flush();
                                    if this == "reply_then_close" { return }
                                }
                            }
                        }
                    });
                }
            });
            let cfg = repe::NodeConfig::new("127.0.0.1", port).unwrap().with_name("n").unwrap()
                .with_timeout(Duration::from_millis(800)).unwrap();
            let opts = repe::FleetOptions { retry_policy: repe::RetryPolicy { max_attempts, delay: Duration::from_millis(10) }, ..Default::default() };
            let mut log = Vec::new();
            let rt = tokio::runtime::Builder::new_multi_thread().worker_threads(2).enable_all().build().unwrap();
            enum F { S(repe::Fleet), A(repe::AsyncFleet) }
            let fleet = if use_async { F::A(repe::AsyncFleet::with_options(vec![cfg], opts).map_err(|e| e.to_string())?) }
                        else { F::S(repe::Fleet::with_options(vec![cfg], opts).map_err(|e| e.to_string())?) };
            let mut last_ok = false;
            for c in 0..calls {
                let before = accepted.load(Ordering::SeqCst);
                let reqs_before = reqs.load(Ordering::SeqCst);
                // "no_params": the parameterless entry points (call_json(.., None) goes through call_message_with_timeout)
                let one = serde_json::json!(1);
                let params = if no_params { None } else { Some(&one) };
                let t0 = std::time::Instant::now();
                let r = match &fleet {
                    F::S(f) => {
                        // a call must return within attempts x (node timeout + delay); bound the wait so that a hang is reported, not waited out
                        let (f2, p2) = (f.clone(), params.cloned());
                        let (dtx, drx) = std::sync::mpsc::channel();
                        std::thread::spawn(move || { let _ = dtx.send(f2.call_json("n", "/ping", p2.as_ref())); });
                        match drx.recv_timeout(Duration::from_secs(15)) {
                            Ok(x) => x.map_err(|e| e.to_string())?.into_result(),
                            Err(_) => return Err(format!("call {c} (params: {}) did not return within 15 s although the node timeout is 800 ms and max_attempts is {max_attempts}: the per-attempt timeout was not applied", if no_params { "none" } else { "some" })),
                        }
                    }
                    F::A(f) => match rt.block_on(async { tokio::time::timeout(Duration::from_secs(15), f.call_json("n", "/ping", params)).await }) {
                        Ok(x) => x.map_err(|e| e.to_string())?.into_result(),
                        Err(_) => return Err(format!("async call {c} (params: {}) did not return within 15 s although the node timeout is 800 ms and max_attempts is {max_attempts}: the per-attempt timeout was not applied", if no_params { "none" } else { "some" })),
                    },
                };
                let _ = t0;
                std::thread::sleep(Duration::from_millis(150)); // let an idle close be noticed
                let opened = accepted.load(Ordering::SeqCst) - before;
                if opened > max_attempts {
                    return Err(format!("call {c} opened {opened} connections with max_attempts {max_attempts}"));
                }
                let sent = reqs.load(Ordering::SeqCst) - reqs_before;
                if let Err(e) = &r {
                    if e.to_string().contains("nope") && sent != 1 {
                        return Err(format!("call {c} was answered with an application error but the request was sent {sent} times: an application-level reply must not be retried"));
                    }
                }
                last_ok = r.is_ok();
                log.push(format!("call{c}:{}(+{opened}conn)", match &r { Ok(_) => "Ok".to_string(), Err(e) => format!("Err({e})") }));
            }
            if !last_ok {
                return Err(format!("node wedged: after the scripted failures the node is healthy, yet the last call still failed: {}", log.join(" ")));
            }
            Ok(log.join(" "))
        }
        "fleet_tag_sweep" => {
            // Bounded stand-in for C19's broadcast clause: 6 nodes over the tag alphabet {a,b,c}, all 8 request
            // subsets; a broadcast must address exactly the nodes carrying ALL requested tags and return one
            // result per addressed node; filter_nodes must agree. Nodes are unreachable (refused), which does not
            // matter: the addressed set is the key set of the result map.
            use std::collections::BTreeSet;
            use std::time::Duration;
            let node_tags: Vec<Vec<&str>> = vec![vec![], vec!["a"], vec!["a", "b"], vec!["a", "b", "c"], vec!["b", "c"], vec!["c"]];
            let mut cfgs = Vec::new();
            for (i, t) in node_tags.iter().enumerate() {
                // port 1 on localhost: connection refused at once
                cfgs.push(repe::NodeConfig::new("127.0.0.1", 1).unwrap().with_name(format!("n{i}")).unwrap()
                    .with_tags(t.iter().map(|s| s.to_string())).with_timeout(Duration::from_millis(200)).unwrap());
            }
            let opts = repe::FleetOptions { retry_policy: repe::RetryPolicy { max_attempts: 1, delay: Duration::from_millis(0) }, ..Default::default() };
            let fleet = repe::Fleet::with_options(cfgs.clone(), opts).map_err(|e| e.to_string())?;
            let afleet = repe::AsyncFleet::with_options(cfgs, opts).map_err(|e| e.to_string())?;
            let rt = tokio::runtime::Builder::new_multi_thread().worker_threads(2).enable_all().build().unwrap();
            let alphabet = ["a", "b", "c"];
            let mut n = 0;
            // every subset, and each subset again with its tags repeated and reversed (a request is a SET of tags: duplicates and order do not matter)
            for variant in 0u8..16 {
                let mask = variant & 7;
                let mut req: Vec<&str> = (0..3).filter(|b| mask & (1 << b) != 0).map(|b| alphabet[b]).collect();
                if variant >= 8 { let mut dup = req.clone(); dup.reverse(); req.extend(dup); }
                let expect: BTreeSet<String> = node_tags.iter().enumerate()
                    .filter(|(_, t)| req.iter().all(|r| t.contains(r))).map(|(i, _)| format!("n{i}")).collect();
                let got: BTreeSet<String> = fleet.broadcast_json("/x", None, &req).keys().cloned().collect();
                let filt: BTreeSet<String> = fleet.filter_nodes(&req).into_iter().map(|n| n.name).collect();
                let agot: BTreeSet<String> = rt.block_on(afleet.broadcast_json("/x", None, &req)).keys().cloned().collect();
                let afilt: BTreeSet<String> = rt.block_on(afleet.filter_nodes(&req)).into_iter().map(|n| n.name).collect();
                let mr: BTreeSet<String> = fleet.map_reduce_json("/x", None, &req, |results| results.iter().map(|r| r.node.clone()).collect::<BTreeSet<String>>());
                let amr: BTreeSet<String> = rt.block_on(afleet.map_reduce_json("/x", None, &req, |results| results.iter().map(|r| r.node.clone()).collect::<BTreeSet<String>>()));
                for (what, set) in [("Fleet::broadcast_json", &got), ("Fleet::filter_nodes", &filt), ("AsyncFleet::broadcast_json", &agot), ("AsyncFleet::filter_nodes", &afilt), ("Fleet::map_reduce_json", &mr), ("AsyncFleet::map_reduce_json", &amr)] {
                    if *set != expect {
                        return Err(format!("{what} with tags {req:?} addressed {set:?}, expected exactly {expect:?}"));
                    }
                }
                n += 1;
            }
            Ok(format!("{n} tag requests x 6 entry points held"))
        }
        "async_client_timeout_then_call" => {
            // C05 scenario for the async client: a call with a per-call timeout and a large payload to a peer
            // that stalls past the timeout and then drains; then a second call on the same client. The bytes
            // the peer receives must be whole frames: an interrupted frame is never followed by another one.
            use std::io::Read as _;
            use std::time::Duration;
            let big = v.get("big_bytes").and_then(|x| x.as_u64()).unwrap_or(32 << 20) as usize;
            let abandon = v.get("abandon").and_then(|x| x.as_bool()).unwrap_or(false);
            let listener = std::net::TcpListener::bind("127.0.0.1:0").unwrap();
            let addr = listener.local_addr().unwrap();
            let peer = std::thread::spawn(move || {
                let (mut s, _) = listener.accept().unwrap();
                std::thread::sleep(Duration::from_millis(700)); // stalled peer
                s.set_read_timeout(Some(Duration::from_millis(1200))).unwrap();
                let mut all = Vec::new();
                let mut buf = vec![0u8; 1 << 16];
                loop {
                    match s.read(&mut buf) {
                        Ok(0) => break,
                        Ok(n) => all.extend_from_slice(&buf[..n]),
                        Err(_) => break,
                    }
                }
                all
            });
            let rt = tokio::runtime::Builder::new_multi_thread().worker_threads(2).enable_all().build().unwrap();
            let (first_s, second_s) = rt.block_on(async {
                let client = repe::AsyncClient::connect(addr).await.unwrap();
                let payload = vec![0x5Au8; big];
                let first_s = if abandon {
                    // the caller abandons its send mid-frame: the future writing the request is dropped 100 ms in
                    let c = client.clone();
                    let h = tokio::spawn(async move { c.notify_with_formats("/big", 1, Some(&payload[..]), 0u16).await });
                    tokio::time::sleep(Duration::from_millis(100)).await;
                    if h.is_finished() { "finished-before-abort".to_string() } else { h.abort(); let _ = h.await; "abandoned mid-send".to_string() }
                } else {
                    let first = client.call_with_formats_and_timeout("/big", 1, Some(&payload[..]), 0u16, Duration::from_millis(100)).await;
                    match &first { Ok(_) => "Ok".to_string(), Err(e) => format!("Err({e})") }
                };
                tokio::time::sleep(Duration::from_millis(900)).await;
                let second = client.notify_with_formats("/small", 1, Some(&b"hi"[..]), 0u16).await;
                let second_s = match &second { Ok(_) => "Ok".to_string(), Err(e) => format!("Err({e})") };
                tokio::time::sleep(Duration::from_millis(200)).await;
                drop(client);
                (first_s, second_s)
            });
            drop(rt);
            let bytes = peer.join().unwrap();
            let mut off = 0usize;
            let mut frames = 0;
            let mut torn = false;
            while off + 48 <= bytes.len() {
                match repe::Header::decode(&bytes[off..off + 48]) {
                    Ok(h) => {
                        if off + h.length as usize > bytes.len() { torn = true; break; }
                        off += h.length as usize;
                        frames += 1;
                    }
                    Err(e) => return Err(format!("peer stream desynchronised at byte {off} of {} after {frames} whole frames ({e}); first call: {first_s}; second: {second_s}", bytes.len())),
                }
            }
            if torn && bytes[off..].windows(6).any(|w| w == b"/small") {
                return Err(format!("a frame was written after an interrupted (torn) frame: first call {first_s}, second {second_s}; peer received {} bytes, {frames} whole frames, then a torn frame that swallows the second request", bytes.len()));
            }
            Ok(format!("first={first_s} second={second_s} received={} bytes, {frames} whole frames, torn_tail={torn}", bytes.len()))
        }
        "peer_registry_sweep" => {
            // Bounded stand-in for C18: every operation sequence of length <= `len` over 3 peers and 3 keys
            // (insert / remove / alias), checked after each step against a sequential model: get_by(k) resolves
            // exactly when k was last assigned to a peer that is still present; aliases_for(p) holds exactly the
            // keys currently pointing at p in assignment order; removing a peer removes all and only its keys.
            // Then a broadcast (with a sink that removes another peer mid-broadcast) must deliver exactly one
            // notification to, and report one result for, each peer present at the moment of the call.
            use std::sync::{Arc, Mutex};
            let len = v.get("len").and_then(|x| x.as_u64()).unwrap_or(4) as usize;
            struct Sink { hits: Arc<Mutex<Vec<(u64, String)>>>, id: u64, reg: Arc<Mutex<Option<repe::PeerRegistry>>>, kill: u64 }
            impl repe::PeerSink for Sink {
                fn send_notify(&self, method: &str, _body: repe::NotifyBody) -> Result<(), repe::PeerSendError> {
                    self.hits.lock().unwrap().push((self.id, method.to_string()));
                    let reg = self.reg.lock().unwrap().clone();
                    if let Some(r) = reg { r.remove(repe::PeerId(self.kill)); }
                    Ok(())
                }
            }
            let keys = ["ka", "kb", "kc"];
            // ops: 0..3 insert p, 3..6 remove p, 6..15 alias(p,k); with "preinsert" all peers exist first and ops start at 3
            let preinsert = v.get("preinsert").and_then(|x| x.as_bool()).unwrap_or(false);
            let first_op = if preinsert { 3usize } else { 0usize };
            let nops = 15usize;
            let mut seq = vec![first_op; len];
            let mut count = 0u64;
            loop {
                for l in 1..=len {
                    // run the prefix of length l only when it is a full sequence (avoid re-checking prefixes): run full length
                    if l != len { continue; }
                    let reg = repe::PeerRegistry::new();
                    let hits = Arc::new(Mutex::new(Vec::new()));
                    let cell: Arc<Mutex<Option<repe::PeerRegistry>>> = Arc::new(Mutex::new(None));
                    // model
                    let mut present = [false; 3];
                    let mut owner: [Option<usize>; 3] = [None; 3];
                    let mut lists: [Vec<usize>; 3] = [vec![], vec![], vec![]];
                    if preinsert {
                        for p in 0..3usize {
                            reg.insert(repe::PeerHandle::new(repe::PeerId(p as u64 + 1), Arc::new(Sink { hits: hits.clone(), id: p as u64 + 1, reg: cell.clone(), kill: ((p + 1) % 3) as u64 + 1 })));
                            present[p] = true;
                        }
                    }
                    for (step, &op) in seq.iter().enumerate() {
                        if op < 3 {
                            let p = op;
                            if !present[p] {
                                reg.insert(repe::PeerHandle::new(repe::PeerId(p as u64 + 1), Arc::new(Sink { hits: hits.clone(), id: p as u64 + 1, reg: cell.clone(), kill: ((p + 1) % 3) as u64 + 1 })));
                                present[p] = true;
                            }
                        } else if op < 6 {
                            let p = op - 3;
                            reg.remove(repe::PeerId(p as u64 + 1));
                            present[p] = false;
                            for k in 0..3 { if owner[k] == Some(p) { owner[k] = None; } }
                            lists[p].clear();
                        } else {
                            let p = (op - 6) / 3;
                            let k = (op - 6) % 3;
                            let ok = reg.alias(repe::PeerId(p as u64 + 1), keys[k]);
                            if ok != present[p] { return Err(format!("history {seq:?} step {step}: alias returned {ok}, peer present = {}", present[p])); }
                            if present[p] && owner[k] != Some(p) {
                                if let Some(prev) = owner[k] { lists[prev].retain(|x| *x != k); }
                                owner[k] = Some(p);
                                lists[p].push(k);
                            }
                        }
                        for k in 0..3 {
                            let got = reg.get_by(keys[k]).map(|h| h.peer_id().0);
                            let want = owner[k].filter(|p| present[*p]).map(|p| p as u64 + 1);
                            if got != want { return Err(format!("history {seq:?} step {step}: get_by({}) = {got:?}, model says {want:?}", keys[k])); }
                        }
                        for p in 0..3 {
                            let got = reg.aliases_for(repe::PeerId(p as u64 + 1));
                            let want: Vec<String> = lists[p].iter().map(|k| keys[*k].to_string()).collect();
                            if got != want { return Err(format!("history {seq:?} step {step}: aliases_for({}) = {got:?}, model says {want:?}", p + 1)); }
                            let kf = reg.key_for(repe::PeerId(p as u64 + 1));
                            if kf != want.first().cloned() { return Err(format!("history {seq:?} step {step}: key_for({}) = {kf:?}; the peer's alias list is {want:?} (its first key is the oldest still assigned)", p + 1)); }
                        }
                        for p in 0..3 {
                            let got = reg.key_for(repe::PeerId(p as u64 + 1));
                            let want: Option<String> = lists[p].first().map(|k| keys[*k].to_string());
                            if got != want { return Err(format!("history {seq:?} step {step}: key_for({}) = {got:?}, model says {want:?} (the first alias in registration order)", p + 1)); }
                        }
                        {
                            let mut got: Vec<u64> = reg.peers().iter().map(|h| h.peer_id().0).collect();
                            got.sort();
                            let want: Vec<u64> = (0..3).filter(|p| present[*p]).map(|p| p as u64 + 1).collect();
                            if got != want || reg.is_empty() != want.is_empty() { return Err(format!("history {seq:?} step {step}: peers() = {got:?}, model says {want:?}")); }
                        }
                        if reg.len() != present.iter().filter(|x| **x).count() { return Err(format!("history {seq:?} step {step}: len mismatch")); }
                    }
                    // broadcast with a peer removed mid-way by a sink
                    *cell.lock().unwrap() = Some(reg.clone());
                    hits.lock().unwrap().clear();
                    let res = reg.broadcast_notify_utf8("/evt", "x");
                    let want: std::collections::BTreeSet<u64> = (0..3).filter(|p| present[*p]).map(|p| p as u64 + 1).collect();
                    let got: std::collections::BTreeSet<u64> = res.keys().map(|p| p.0).collect();
                    if got != want { return Err(format!("history {seq:?}: broadcast reported results for {got:?}, peers present at the call were {want:?}")); }
                    let mut delivered: Vec<u64> = hits.lock().unwrap().iter().map(|(p, _)| *p).collect();
                    delivered.sort();
                    if delivered != want.iter().cloned().collect::<Vec<_>>() { return Err(format!("history {seq:?}: broadcast delivered to {delivered:?}, peers present at the call were {want:?}")); }
                    if hits.lock().unwrap().iter().any(|(_, m)| m != "/evt") { return Err(format!("history {seq:?}: a notification carried the wrong path")); }
                    *cell.lock().unwrap() = None;
                    count += 1;
                }
                // next sequence
                let mut i = 0;
                loop {
                    if i == len { return Ok(format!("{count} histories of length {len} over 3 peers x 3 keys held")); }
                    seq[i] += 1;
                    if seq[i] < nops { break; }
                    seq[i] = first_op;
                    i += 1;
                }
            }
        }
        "bulk_numeric_sweep" => {
            let lens = [0usize, 1, 2, 3, 7, 8, 9, 17, 64, 300];
            let mut total = 0;
            total += bulk_sweep_type::<u8>("u8", &lens)?;
            total += bulk_sweep_type::<u16>("u16", &lens)?;
            total += bulk_sweep_type::<u32>("u32", &lens)?;
            total += bulk_sweep_type::<u64>("u64", &lens)?;
            total += bulk_sweep_type::<i8>("i8", &lens)?;
            total += bulk_sweep_type::<i16>("i16", &lens)?;
            total += bulk_sweep_type::<i32>("i32", &lens)?;
            total += bulk_sweep_type::<i64>("i64", &lens)?;
            total += bulk_sweep_type::<f32>("f32", &lens)?;
            total += bulk_sweep_type::<f64>("f64", &lens)?;
            // builder histories (multi-step): a body setter other than the aligned one yields a body that depends on nothing an earlier
            // setter left behind, and a query setter never touches such a body -- every history of length 4 over 8 setters
            {
                let xs: Vec<f64> = (0..10).map(|i| i as f64 * 1.5).collect();
                let cs: Vec<beve::Complex<f64>> = (0..17).map(|i| beve::Complex { re: i as f64, im: -(i as f64) }).collect();
                let js = serde_json::json!({"k": [1, 2, 3]});
                let apply = |b: repe::message::MessageBuilder, op: usize| -> repe::message::MessageBuilder {
                    match op {
                        0 => b.query_str("/x"),
                        1 => b.query_str("/a/much/longer/path/to/spectra"),
                        2 => b.query_bytes(b"/qb".to_vec()),
                        3 => b.body_aligned_typed_slice(&xs),
                        4 => b.body_typed_slice(&xs),
                        5 => b.body_complex_slice(&cs),
                        6 => b.body_bytes(vec![9u8; 5]).body_format(repe::BodyFormat::RawBinary),
                        _ => b.body_json(&js).expect("json"),
                    }
                };
                let names = ["query_str(short)", "query_str(long)", "query_bytes", "body_aligned_typed_slice", "body_typed_slice", "body_complex_slice", "body_bytes", "body_json"];
                for h in 0..8usize.pow(4) {
                    let ops = [h % 8, (h / 8) % 8, (h / 64) % 8, (h / 512) % 8];
                    let mut b = repe::Message::builder().id(5);
                    for &o in &ops { b = apply(b, o); }
                    let m = b.build();
                    let hist = || ops.iter().map(|o| names[*o]).collect::<Vec<_>>().join(" -> ");
                    if let Some(&lq) = ops.iter().rev().find(|o| **o <= 2) {
                        let want = apply(repe::Message::builder(), lq).build().query;
                        if m.query != want { return Err(format!("builder history {}: the query is not the last one set", hist())); }
                    }
                    if let Some(&lb) = ops.iter().rev().find(|o| **o >= 4) {
                        // only when no aligned body was set after it
                        let pos_b = ops.iter().rposition(|o| *o == lb).unwrap();
                        if !ops[pos_b..].contains(&3) {
                            let want = apply(repe::Message::builder(), lb).build();
                            if m.body != want.body || m.header.body_format != want.header.body_format {
                                return Err(format!("builder history {}: the body ({} bytes, format {}) is not what {} alone produces ({} bytes, format {})", hist(), m.body.len(), m.header.body_format, names[lb], want.body.len(), want.header.body_format));
                            }
                        }
                    }
                    if m.header.length != 48 + m.query.len() as u64 + m.body.len() as u64 || repe::Message::from_slice_exact(&m.to_vec()).is_err() {
                        return Err(format!("builder history {}: the built message is not a consistent frame", hist()));
                    }
                    total += 1;
                }
            }
            // complex pairs: bulk == generic, round trip, streaming == builder
            let mut seed = 77u64;
            for n in [0usize, 1, 2, 5, 31, 32, 33, 63, 64, 65, 8191, 8192] {
                let data: Vec<beve::Complex<f64>> = (0..n).map(|_| beve::Complex { re: f64::from_bits(lcg(&mut seed)), im: f64::from_bits(lcg(&mut seed)) }).collect();
                let built = repe::Message::builder().id(3).query_str("/c").body_complex_slice(&data).build();
                let back: Vec<beve::Complex<f64>> = built.decode_complex_slice().map_err(|e| e.to_string())?;
                if back.len() != data.len() || back.iter().zip(&data).any(|(a, b)| a.re.to_bits() != b.re.to_bits() || a.im.to_bits() != b.im.to_bits()) {
                    return Err(format!("complex n={n}: round trip differs"));
                }
                let mut streamed = Vec::new();
                let mut h = repe::Header::new();
                h.id = 3;
                repe::write_message_complex_slice(&mut streamed, h, b"/c", &data).map_err(|e| e.to_string())?;
                let mut expect = built.clone();
                expect.header.query_format = 0;
                if streamed[48..] != expect.to_vec()[48..] { return Err(format!("complex n={n}: streamed frame payload differs from the builder's")); }
                total += 1;
            }
            Ok(format!("{total} bulk numeric cases held"))
        }
        "wire_sweep" => {
            // Bounded stand-in for C01/C02: an independent oracle of the REPE v1 layout against every emission
            // route and every parser / stream reader, over boundary header values, payload sizes 0..3 and 70,
            // capacity relations, chunked sinks, truncation at every byte position and structured mutations.
            use std::io::{Read as _, Write as _};
            // buffers REUSED across every read of the sweep (larger frame then smaller, failed partial read then a fresh stream):
            // whatever an earlier read left behind must not show in a later result
            let mut reuse_sync: Vec<u8> = Vec::new();
            let mut reuse_async: Vec<u8> = Vec::new();
            fn oracle_header(h: &repe::Header) -> Vec<u8> {
                let mut o = Vec::new();
                o.extend_from_slice(&h.length.to_le_bytes());
                o.extend_from_slice(&h.spec.to_le_bytes());
                o.push(h.version);
                o.push(h.notify);
                o.extend_from_slice(&h.reserved.to_le_bytes());
                o.extend_from_slice(&h.id.to_le_bytes());
                o.extend_from_slice(&h.query_length.to_le_bytes());
                o.extend_from_slice(&h.body_length.to_le_bytes());
                o.extend_from_slice(&h.query_format.to_le_bytes());
                o.extend_from_slice(&h.body_format.to_le_bytes());
                o.extend_from_slice(&h.ec.to_le_bytes());
                o
            }
            // oracle parse: Ok((header fields equal, q, b)) iff magic ok, consistent, whole frame present
            fn oracle_parse(buf: &[u8], exact: bool) -> Option<(usize, usize)> {
                if buf.len() < 48 { return None; }
                let g = |a: usize, n: usize| { let mut x = 0u128; for i in 0..n { x |= (buf[a + i] as u128) << (8 * i); } x };
                let (len, spec, q, b) = (g(0, 8), g(8, 2), g(24, 8), g(32, 8));
                if spec != 0x1507 || len != 48 + q + b { return None; }
                if (buf.len() as u128) < len { return None; }
                if exact && buf.len() as u128 != len { return None; }
                Some((q as usize, b as usize))
            }
            struct Chunky { out: Vec<u8>, max: usize }
            impl std::io::Write for Chunky {
                fn write(&mut self, b: &[u8]) -> std::io::Result<usize> { let n = b.len().min(self.max); self.out.extend_from_slice(&b[..n]); Ok(n) }
                fn flush(&mut self) -> std::io::Result<()> { Ok(()) }
            }
            // a sink with a real gather write: one call takes up to `max` bytes ACROSS the offered slices (a short vectored write
            // may end inside the header, exactly between two parts, or inside the query or the body)
            struct Gather { out: Vec<u8>, max: usize }
            impl std::io::Write for Gather {
                fn write(&mut self, b: &[u8]) -> std::io::Result<usize> { let n = b.len().min(self.max); self.out.extend_from_slice(&b[..n]); Ok(n) }
                fn write_vectored(&mut self, bufs: &[std::io::IoSlice<'_>]) -> std::io::Result<usize> {
                    let mut left = self.max;
                    let mut n = 0;
                    for b in bufs { let k = b.len().min(left); self.out.extend_from_slice(&b[..k]); left -= k; n += k; if left == 0 { break; } }
                    Ok(n)
                }
                fn flush(&mut self) -> std::io::Result<()> { Ok(()) }
            }
            struct Chunked<'a> { data: &'a [u8], pos: usize, step: usize }
            impl std::io::Read for Chunked<'_> {
                fn read(&mut self, b: &mut [u8]) -> std::io::Result<usize> {
                    let n = b.len().min(self.step).min(self.data.len() - self.pos);
                    b[..n].copy_from_slice(&self.data[self.pos..self.pos + n]);
                    self.pos += n;
                    Ok(n)
                }
            }
            let rt = tokio::runtime::Builder::new_current_thread().enable_all().build().unwrap();
            let edge64 = [0u64, 1, 47, 48, 49, 255, 1 << 31, 1 << 32, 1 << 62, 1 << 63, u64::MAX - 48, u64::MAX - 47, u64::MAX];
            let mut cases = 0usize;
            // ---- emission routes ----
            for &ql in &[0usize, 1, 3, 70] {
                for &bl in &[0usize, 1, 2, 70] {
                    for variant in 0..6u32 {
                        let q: Vec<u8> = (0..ql).map(|i| (i * 3 + 1) as u8).collect();
                        let b: Vec<u8> = (0..bl).map(|i| (i * 5 + 2) as u8).collect();
                        let mut h = repe::Header::new();
                        h.id = edge64[(variant as usize * 2 + 1) % edge64.len()];
                        h.notify = [0u8, 1, 2, 255, 7, 0][variant as usize];
                        h.reserved = [0u32, 1, u32::MAX, 0x8000_0000, 5, 0][variant as usize];
                        h.query_format = [0u16, 1, 2, 0x7777, u16::MAX, 1][variant as usize];
                        h.body_format = [0u16, 1, 2, 3, 0x1234, u16::MAX][variant as usize];
                        h.ec = [0u32, 1, 9, 4096, u32::MAX, 6][variant as usize];
                        h.version = [1u8, 1, 2, 0, 255, 1][variant as usize];
                        h.query_length = ql as u64;
                        h.body_length = bl as u64;
                        h.length = 48 + ql as u64 + bl as u64;
                        let m = repe::Message { header: h, query: q.clone(), body: b.clone() };
                        let mut expect = oracle_header(&h);
                        expect.extend_from_slice(&q);
                        expect.extend_from_slice(&b);
                        if m.to_vec() != expect { return Err(format!("to_vec differs from the REPE v1 layout (q={ql}, b={bl}, variant {variant})")); }
                        for extra in [0usize, 47, 48 + ql - 1 + (ql == 0) as usize, 48 + ql, 48 + ql + 1, 4096] {
                            let mut body = Vec::with_capacity(bl + extra);
                            body.extend_from_slice(&b);
                            let m2 = repe::Message { header: h, query: q.clone(), body };
                            if m2.into_wire_bytes() != expect { return Err(format!("into_wire_bytes differs (q={ql}, b={bl}, spare capacity {extra})")); }
                        }
                        for max in [1usize, 7, 48, 1 << 20] {
                            let mut s1 = Chunky { out: Vec::new(), max };
                            m.write_to(&mut s1).map_err(|e| e.to_string())?;
                            let mut s2 = Chunky { out: Vec::new(), max };
                            repe::write_message(&mut s2, &m).map_err(|e| e.to_string())?;
                            let mut s3 = Chunky { out: Vec::new(), max };
                            repe::write_message_streaming(&mut s3, h, &q, bl as u64, |w| w.write_all(&b)).map_err(|e| e.to_string())?;
                            if s1.out != expect || s2.out != expect || s3.out != expect {
                                return Err(format!("an emission route differs from to_vec on a sink accepting {max} bytes per write (q={ql}, b={bl}): write_to {} bytes, write_message {} bytes, streaming {} bytes, expected {}", s1.out.len(), s2.out.len(), s3.out.len(), expect.len()));
                            }
                        }
                        for max in [1usize, 7, 47, 48, 49, 48 + ql, 48 + ql + 1, (48 + ql + bl).saturating_sub(1).max(1), 48 + ql + bl] {
                            let mut s1 = Gather { out: Vec::new(), max };
                            m.write_to(&mut s1).map_err(|e| e.to_string())?;
                            let mut s2 = Gather { out: Vec::new(), max };
                            repe::write_message(&mut s2, &m).map_err(|e| e.to_string())?;
                            let mut s3 = Gather { out: Vec::new(), max };
                            repe::write_message_streaming(&mut s3, h, &q, bl as u64, |w| w.write_all(&b)).map_err(|e| e.to_string())?;
                            if s1.out != expect || s2.out != expect || s3.out != expect {
                                return Err(format!("an emission route differs from to_vec on a gather-writing sink accepting {max} bytes per call (q={ql}, b={bl}): write_to {} bytes, write_message {} bytes, streaming {} bytes, expected {}", s1.out.len(), s2.out.len(), s3.out.len(), expect.len()));
                            }
                        }
                        // the numeric-slice writers: whatever the incoming header says, the frame is the builder's frame for the same slice
                        if ql <= 3 && bl <= 2 {
                            let data: Vec<u32> = (0..(bl as u32 * 3)).map(|i| i.wrapping_mul(2654435761)).collect();
                            let built = repe::Message::builder().id(h.id).query_bytes(q.clone()).query_format_code(h.query_format).body_typed_slice(&data).build();
                            let mut hh = h; hh.query_length = 0; hh.body_length = 0; hh.length = 0;
                            let mut streamed = Vec::new();
                            repe::write_message_typed_slice(&mut streamed, hh, &q, &data).map_err(|e| e.to_string())?;
                            let pm = repe::Message::from_slice_exact(&streamed).map_err(|e| format!("write_message_typed_slice emitted an unparsable frame (incoming body_format {}): {e}", h.body_format))?;
                            if pm.header.body_format != built.header.body_format || pm.body != built.body || pm.query != built.query || pm.header.id != h.id {
                                return Err(format!("write_message_typed_slice with an incoming header body_format={} emitted body_format={} ({} body bytes); the builder route emits body_format={} ({} body bytes)", h.body_format, pm.header.body_format, pm.body.len(), built.header.body_format, built.body.len()));
                            }
                            for cn in [bl, 31, 32, 33, 63, 64, 65] {
                            let cdata: Vec<repe::Complex<f32>> = (0..cn).map(|i| repe::Complex { re: i as f32, im: -(i as f32) }).collect();
                            let cbuilt = repe::Message::builder().id(h.id).query_bytes(q.clone()).body_complex_slice(&cdata).build();
                            let mut cstreamed = Vec::new();
                            repe::write_message_complex_slice(&mut cstreamed, hh, &q, &cdata).map_err(|e| e.to_string())?;
                            let cpm = repe::Message::from_slice_exact(&cstreamed).map_err(|e| format!("write_message_complex_slice emitted an unparsable frame: {e}"))?;
                            if cpm.header.body_format != cbuilt.header.body_format || cpm.body != cbuilt.body {
                                return Err(format!("write_message_complex_slice with an incoming header body_format={} emitted body_format={}; the builder route emits {}", h.body_format, cpm.header.body_format, cbuilt.header.body_format));
                            }
                            if cstreamed.len() != 48 + q.len() + cbuilt.body.len() { return Err(format!("write_message_complex_slice for {cn} elements emitted {} bytes; the builder route frames {}", cstreamed.len(), 48 + q.len() + cbuilt.body.len())); }
                            }
                        }
                        let mut a = Vec::new();
                        rt.block_on(repe::async_io::write_message_async(&mut a, &m)).map_err(|e| e.to_string())?;
                        if a != expect { return Err("write_message_async differs from to_vec".into()); }
                        // ---- parsers and readers on the frame, truncated / extended at every position ----
                        for cut in 0..=expect.len() + 2 {
                            let mut buf = expect.clone();
                            if cut <= expect.len() { buf.truncate(cut); } else { buf.extend_from_slice(&[0xAA; 2][..cut - expect.len()]); }
                            for exact in [false, true] {
                                let want = oracle_parse(&buf, exact);
                                let got_m = if exact { repe::Message::from_slice_exact(&buf) } else { repe::Message::from_slice(&buf) };
                                let got_v = if exact { repe::MessageView::from_slice_exact(&buf) } else { repe::MessageView::from_slice(&buf) };
                                match (&got_m, &got_v, want) {
                                    (Ok(mm), Ok(vv), Some((wq, wb))) => {
                                        if mm.query != buf[48..48 + wq] || mm.body != buf[48 + wq..48 + wq + wb] || vv.query != &buf[48..48 + wq] || vv.body != &buf[48 + wq..48 + wq + wb] || mm.header != h || vv.header != h {
                                            return Err(format!("a parser returned bytes/fields that are not the input's (len {}, exact={exact})", buf.len()));
                                        }
                                    }
                                    (Err(_), Err(_), None) => {}
                                    _ => return Err(format!("parser acceptance differs from the oracle on a {}-byte buffer of a {}-byte frame (exact={exact}): Message {:?}, View {:?}, oracle {:?}", buf.len(), expect.len(), got_m.is_ok(), got_v.is_ok(), want.is_some())),
                                }
                            }
                            if cut <= expect.len() {
                                for step in [1usize, 5, 1 << 20] {
                                    let whole = cut == expect.len();
                                    let r1 = repe::read_message(&mut Chunked { data: &buf, pos: 0, step });
                                    let mut into = Vec::new();
                                    let r2 = repe::read_message_into(&mut Chunked { data: &buf, pos: 0, step }, &mut into);
                                    let r3 = rt.block_on(repe::async_io::read_message_async(&mut &buf[..]));
                                    let mut into2 = Vec::new();
                                    let r4 = rt.block_on(repe::async_io::read_message_into_async(&mut &buf[..], &mut into2));
                                    if r1.is_ok() != whole || r2.is_ok() != whole || r3.is_ok() != whole || r4.is_ok() != whole {
                                        return Err(format!("a stream reader's outcome on a stream cut at byte {cut} of {} is wrong: read_message {:?}, read_message_into {:?}, async {:?}, into_async {:?} (Ok expected: {whole})", expect.len(), r1.is_ok(), r2.is_ok(), r3.is_ok(), r4.is_ok()));
                                    }
                                    if whole && (r1.unwrap().to_vec() != expect || into != expect || r3.unwrap().to_vec() != expect || into2 != expect) {
                                        return Err("a stream reader returned bytes that differ from the stream".into());
                                    }
                                    let prev = (reuse_sync.len(), reuse_async.len());
                                    let r5 = repe::read_message_into(&mut Chunked { data: &buf, pos: 0, step }, &mut reuse_sync);
                                    let r6 = rt.block_on(repe::async_io::read_message_into_async(&mut &buf[..], &mut reuse_async));
                                    if r5.is_ok() != whole || r6.is_ok() != whole {
                                        return Err(format!("a stream reader handed a REUSED buffer (previous contents {} / {} bytes) answers differently on a stream cut at byte {cut} of {}: read_message_into {:?}, into_async {:?} (Ok expected: {whole})", prev.0, prev.1, expect.len(), r5.is_ok(), r6.is_ok()));
                                    }
                                    if whole && (reuse_sync != expect || reuse_async != expect) {
                                        return Err(format!("a stream reader handed a REUSED buffer (previous contents {} / {} bytes) returned {} / {} bytes that are not the {}-byte frame on the stream", prev.0, prev.1, reuse_sync.len(), reuse_async.len(), expect.len()));
                                    }
                                }
                            }
                            cases += 1;
                        }
                    }
                }
            }
            // ---- hostile headers: every combination of boundary values in the three length fields ----
            let hostile_rt = tokio::runtime::Builder::new_current_thread().build().unwrap();
            for &len in &edge64 { for &q in &edge64 { for &b in &edge64 {
                let mut h = repe::Header::new();
                h.length = len; h.query_length = q; h.body_length = b;
                let mut buf = oracle_header(&h);
                buf.extend_from_slice(&[7u8; 64]);
                for n in [48usize, 49, 96, 112] {
                    let want = oracle_parse(&buf[..n], false).is_some();
                    let d = repe::Header::decode(&buf[..48]).is_ok();
                    let consistent = (len as u128) == 48 + q as u128 + b as u128;
                    if d != consistent { return Err(format!("Header::decode accepted={d} for length={len} q={q} b={b}")); }
                    if repe::Message::from_slice(&buf[..n]).is_ok() != want || repe::MessageView::from_slice(&buf[..n]).is_ok() != want {
                        return Err(format!("a parser's acceptance differs from the oracle for length={len} q={q} b={b} on {n} bytes"));
                    }
                    // stream readers: declared sizes are <= 64 bytes or >= 2^62 here, so the outcome does not depend on memory
                    let small = (q as u128 + b as u128) <= 64;
                    if small || q >= 1 << 62 || b >= 1 << 62 || !consistent {
                        let r = repe::read_message(&mut &buf[..n]);
                        let mut into = Vec::new();
                        let r2 = repe::read_message_into(&mut &buf[..n], &mut into);
                        let whole = consistent && (n as u128) >= 48 + q as u128 + b as u128;
                        if r.is_ok() != whole || r2.is_ok() != whole { return Err(format!("a stream reader's outcome is wrong for length={len} q={q} b={b} on {n} bytes")); }
                        // the two async twins
                        let r3 = hostile_rt.block_on(repe::async_io::read_message_async(&mut &buf[..n]));
                        let mut into3 = Vec::new();
                        let r4 = hostile_rt.block_on(repe::async_io::read_message_into_async(&mut &buf[..n], &mut into3));
                        if r3.is_ok() != whole || r4.is_ok() != whole { return Err(format!("an async stream reader's outcome is wrong for length={len} q={q} b={b} on {n} bytes")); }
                    }
                    cases += 1;
                }
            } } }
            let _ = std::io::sink().flush();
            let mut dummy = [0u8; 1];
            let _ = std::io::empty().read(&mut dummy);
            Ok(format!("{cases} wire cases held"))
        }
        "transfer_sweep" => {
            // Bounded stand-in for C11/C13: every history of length <= `len` over a small operation alphabet,
            // through the public TransferControl API, against a sequential model over mathematical integers.
            use repe::stream::{CreditError, ReconnectOutcome, ResumeRejection, TransferControl};
            use std::time::Duration;
            let len = v.get("len").and_then(|x| x.as_u64()).unwrap_or(4) as usize;
            #[derive(Clone, Debug)]
            enum Op { Sent(u64), Ack(u32, u64), Cancel(&'static str), Advance(u32), Push(u64, usize), Resume(u32, u64), Credit(u64), Reconnect }
            let mut ops = Vec::new();
            for s in [1u64, 2, 5, u64::MAX] { ops.push(Op::Sent(s)); }
            for f in [0u32, 1] { for o in [0u64, 1, 2, 9, u64::MAX] { ops.push(Op::Ack(f, o)); } }
            for r in ["", "a", "b"] { ops.push(Op::Cancel(r)); }
            ops.push(Op::Advance(1));
            // (0, 1): a chunk with no payload bytes (a bare `last` terminator, a metadata-only frame) still occupies a place in the replay order
            for (dl, wl) in [(1u64, 1usize), (2, 3), (0, 1)] { ops.push(Op::Push(dl, wl)); }
            for f in [0u32, 1] { for o in [0u64, 1, 2, 3] { ops.push(Op::Resume(f, o)); } }
            for c in [1u64, 4] { ops.push(Op::Credit(c)); }
            ops.push(Op::Reconnect);
            let n = ops.len();
            let window = 4u64;
            let cap = 4u64;
            let mut idx = vec![0usize; len];
            let mut count = 0u64;
            loop {
                let ctl = TransferControl::with_replay_capacity(window, cap);
                // model
                let (mut sent, mut acked, mut file) = (0u128, 0u128, 0u32);
                let mut cancelled: Option<String> = None;
                let mut ring: Vec<(u64, u64, usize)> = Vec::new(); // (offset, data_len, wire_len)
                let mut next_off = 0u64;
                let mut pending: Option<u64> = None;
                for (step, &i) in idx.iter().enumerate() {
                    let op = ops[i].clone();
                    let ctx = || format!("history {:?} step {step} ({op:?})", idx.iter().map(|j| format!("{:?}", ops[*j])).collect::<Vec<_>>());
                    match op.clone() {
                        Op::Sent(s) => { ctl.record_sent(s); if (s as u128) > sent { sent = s as u128; } }
                        Op::Ack(f, o) => { ctl.record_ack(f, o); if f == file { let c = (o as u128).min(sent); if c > acked { acked = c; } } }
                        Op::Cancel(r) => { ctl.cancel(r); if cancelled.is_none() { cancelled = Some(r.to_string()); } }
                        Op::Advance(f) => { ctl.advance_to_file(f); file = f; sent = 0; acked = 0; ring.clear(); next_off = 0; pending = None; }
                        Op::Push(dl, wl) => {
                            ctl.push_replay(next_off, dl, false, vec![0u8; wl]);
                            ring.push((next_off, dl, wl));
                            next_off += dl;
                            while ring.iter().map(|c| c.2 as u64).sum::<u64>() > cap && ring.len() > 1 { ring.remove(0); }
                        }
                        Op::Resume(f, o) => {
                            let covers = if ring.is_empty() { o == 0 } else { ring.iter().any(|c| c.0 == o) || ring.last().map(|c| c.0 + c.1) == Some(o) };
                            let want = if cancelled.is_some() { Err(ResumeRejection::Cancelled) }
                                else if f != file { Err(ResumeRejection::WrongFileIndex { requested: f, current: file }) }
                                else if !covers { Err(ResumeRejection::OutOfWindow) } else { Ok(o) };
                            let (peer, _rx) = { struct S; impl repe::PeerSink for S { fn send_notify(&self, _m: &str, _b: repe::NotifyBody) -> Result<(), repe::PeerSendError> { Ok(()) } } (repe::PeerHandle::new(repe::PeerId(1), std::sync::Arc::new(S)), ()) };
                            let got = ctl.request_resume(peer, f, o);
                            if got != want { return Err(format!("{}: request_resume returned {got:?}, model says {want:?}", ctx())); }
                            if want.is_ok() {
                                pending = Some(o);
                                if (o as u128) > acked && (o as u128) <= sent { acked = o as u128; }
                                let tail: Vec<u64> = ctl.replay_chunks_from(o).iter().map(|c| c.offset).collect();
                                let want_tail: Vec<u64> = ring.iter().filter(|c| c.0 >= o).map(|c| c.0).collect();
                                if tail != want_tail { return Err(format!("{}: replay tail offsets {tail:?}, model says {want_tail:?}", ctx())); }
                                if let Some(first) = tail.first() { if *first != o { return Err(format!("{}: accepted resume at {o} but the replay starts at {first}", ctx())); } }
                            }
                        }
                        Op::Credit(c) => {
                            let r = ctl.wait_for_credit(c, std::time::Instant::now());
                            let inflight = sent - acked;
                            let fits = inflight == 0 || inflight + c as u128 <= window as u128;
                            match (&r, &cancelled) {
                                (Err(CreditError::Cancelled(x)), Some(y)) if x == y => {}
                                (Ok(()), None) if fits => {}
                                (Err(CreditError::Timeout), None) if !fits => {}
                                _ => return Err(format!("{}: wait_for_credit returned {r:?}; model: cancelled={cancelled:?}, in_flight={inflight}, fits={fits}", ctx())),
                            }
                        }
                        Op::Reconnect => {
                            let r = ctl.wait_for_reconnect(Duration::from_millis(0));
                            match (&r, &cancelled, pending) {
                                (ReconnectOutcome::Cancelled(x), Some(y), _) if x == y => {}
                                (ReconnectOutcome::ResumeReady(p), None, Some(o)) if p.resume_at_offset == o => { pending = None; }
                                (ReconnectOutcome::Timeout, None, None) => {}
                                _ => return Err(format!("{}: wait_for_reconnect returned {r:?}; model: cancelled={cancelled:?}, pending={pending:?}", ctx())),
                            }
                        }
                    }
                    let (s, a) = ctl.offsets();
                    if s as u128 != sent || a as u128 != acked || a > s {
                        return Err(format!("{}: offsets (sent, acked) = ({s}, {a}), model says ({sent}, {acked})", ctx()));
                    }
                    if ctl.cancel_reason() != cancelled { return Err(format!("{}: cancel reason {:?}, first reason was {cancelled:?}", ctx(), ctl.cancel_reason())); }
                }
                count += 1;
                let mut k = 0;
                loop {
                    if k == len { return Ok(format!("{count} histories of length {len} over {n} operations held")); }
                    idx[k] += 1;
                    if idx[k] < n { break; }
                    idx[k] = 0;
                    k += 1;
                }
            }
        }
        "client_id_stress" => {
            // Bounded stand-in for the id-distinctness half of C04 (a schedule property the contract family cannot
            // express): `threads` callers share clones of one client and issue `per_thread` notifies each at the same
            // time; a recording server lists every id it reads. On code where id allocation is one atomic
            // read-modify-write no schedule can produce a duplicate, so this never alarms on such code; on a
            // racy allocation detection is probabilistic (stated in the bound).
            let threads = v.get("threads").and_then(|x| x.as_u64()).unwrap_or(8) as usize;
            let per = v.get("per_thread").and_then(|x| x.as_u64()).unwrap_or(20000) as usize;
            let which = v.get("client").and_then(|x| x.as_str()).unwrap_or("blocking");
            let listener = std::net::TcpListener::bind("127.0.0.1:0").map_err(|e| e.to_string())?;
            let addr = listener.local_addr().unwrap();
            let server = std::thread::spawn(move || {
                let (stream, _) = listener.accept().unwrap();
                let mut reader = std::io::BufReader::with_capacity(1 << 16, stream);
                let mut ids: Vec<u64> = Vec::new();
                while let Ok(req) = repe::read_message(&mut reader) {
                    ids.push(req.header.id);
                }
                ids
            });
            match which {
                "blocking" => {
                    let client = repe::Client::connect(addr).map_err(|e| e.to_string())?;
                    let start = std::sync::Arc::new(std::sync::Barrier::new(threads));
                    let mut hs = Vec::new();
                    for _ in 0..threads {
                        let c = client.clone();
                        let st = start.clone();
                        hs.push(std::thread::spawn(move || {
                            st.wait();
                            for _ in 0..per {
                                if c.notify_json("/tick", &serde_json::json!({})).is_err() { break; }
                            }
                        }));
                    }
                    for h in hs { let _ = h.join(); }
                    drop(client);
                }
                "async" => {
                    let rt = tokio::runtime::Builder::new_multi_thread().worker_threads(threads).enable_all().build().unwrap();
                    rt.block_on(async {
                        let client = repe::AsyncClient::connect(addr).await.map_err(|e| e.to_string())?;
                        let mut hs = Vec::new();
                        for _ in 0..threads {
                            let c = client.clone();
                            hs.push(tokio::spawn(async move {
                                for _ in 0..per {
                                    if c.notify_json("/tick", &serde_json::json!({})).await.is_err() { break; }
                                }
                            }));
                        }
                        for h in hs { let _ = h.await; }
                        drop(client);
                        Ok::<(), String>(())
                    })?;
                    drop(rt);
                }
                other => panic!("unknown client kind {other}"),
            }
            let ids = server.join().map_err(|_| "server thread panicked".to_string())?;
            let distinct: std::collections::HashSet<u64> = ids.iter().copied().collect();
            if distinct.len() != ids.len() {
                return Err(format!("{} of {} request ids issued on one {which} connection were issued more than once", ids.len() - distinct.len(), ids.len()));
            }
            if ids.len() != threads * per { return Err(format!("server saw {} frames, {} were sent", ids.len(), threads * per)); }
            Ok(format!("{} ids on one {which} connection, all distinct", ids.len()))
        }
        "route_shape_sweep" => {
            // Bounded stand-in for C07: routers built in every registration order of {exact routes, registry mount,
            // struct mount, forwarding middleware}; every path over a small alphabet up to `maxlen` plus deep and
            // prefix-sharing paths; an independent oracle for resolution (exact > mount at '/' boundary), for the
            // pointer/segments the mount is handed (RFC 6901 tokens), and owned-vs-borrowed handler equality for the
            // built-in handler kinds over every body-format code class and a set of body byte strings.
            use repe::{Message, MessageView, Next, RepeError, RepeStruct, Router, Registry};
            use serde_json::{json, Value};
            use std::sync::{Arc, Mutex, atomic::{AtomicUsize, Ordering}};
            let maxlen = v.get("maxlen").and_then(|x| x.as_u64()).unwrap_or(5) as usize;
            struct Rec { seen: Arc<Mutex<Vec<Vec<String>>>> }
            impl RepeStruct for Rec {
                fn repe_handle(&mut self, segments: &[&str], _body: Option<Value>) -> Result<Option<Value>, repe::StructError> {
                    self.seen.lock().unwrap().push(segments.iter().map(|s| s.to_string()).collect());
                    Ok(Some(json!("struct")))
                }
            }
            // oracle: RFC 6901 tokens of a pointer ("" -> none); None for a malformed escape (outside the quantifier)
            fn tokens(ptr: &str) -> Option<Vec<String>> {
                if ptr.is_empty() { return Some(vec![]); }
                let s = ptr.strip_prefix('/').unwrap_or(ptr);
                let mut out = Vec::new();
                for raw in s.split('/') {
                    let b: Vec<char> = raw.chars().collect();
                    let mut t = String::new();
                    let mut i = 0;
                    while i < b.len() {
                        if b[i] == '~' {
                            match b.get(i + 1) { Some('0') => t.push('~'), Some('1') => t.push('/'), _ => return None }
                            i += 2;
                        } else { t.push(b[i]); i += 1; }
                    }
                    out.push(t);
                }
                Some(out)
            }
            fn mounted(prefix: &str, path: &str) -> bool {
                let (p, s) = (prefix.as_bytes(), path.as_bytes());
                p.is_empty() || p == s || (s.len() > p.len() && &s[..p.len()] == p && s[p.len()] == b'/')
            }
            fn canonical(toks: &[String]) -> String {
                if toks.is_empty() { return "/".into(); }
                toks.iter().map(|t| format!("/{}", t.replace('~', "~0").replace('/', "~1"))).collect()
            }
            let exact = ["/r/x", "/s/x/x", "/e", "/rx"];
            // paths
            let alphabet = ['/', 'r', 's', 'x', '~', '0', '1'];
            let mut paths: Vec<String> = vec![String::new()];
            let mut frontier = vec![String::new()];
            for _ in 0..maxlen {
                let mut next = Vec::new();
                for p in &frontier { for c in alphabet { let mut q = p.clone(); q.push(c); next.push(q); } }
                paths.extend(next.iter().cloned());
                frontier = next;
            }
            for n in 0..=40usize {
                let mut deep = String::from("/s");
                for k in 0..n { deep.push('/'); deep.push_str(&format!("k{k}")); }
                paths.push(deep.clone());
                paths.push(format!("{deep}/"));
                paths.push(format!("{deep}/a~1b~0c"));
                let mut deep_r = String::from("/r");
                for k in 0..n { deep_r.push('/'); deep_r.push_str(&format!("k{k}")); }
                paths.push(deep_r);
            }
            for extra in ["/r~1x", "/s~0", "/sx/x", "/r/x/", "/s/x/x/", "/e/", "/é", "/r/é/~1", "/s/é/~0é", "/s/~01", "/s/a~01b", "/r/~01", "/r/a~01b/~10", "/s/~10/~00~11", "/s/k/~01~10~0~1", "/r/k/~00/~11"] { paths.push(extra.to_string()); }
            // the public tokeniser itself, on every well-formed path of the set
            for path in &paths {
                if let Some(want) = tokens(path) {
                    let got = repe::parse_json_pointer(path);
                    if got != want { return Err(format!("parse_json_pointer({path:?}) = {got:?}; RFC 6901 tokens are {want:?}")); }
                }
            }
            // the public evaluator: eval_json_pointer(doc, p) walks doc along parse_json_pointer(p) ("" is the whole document, "/" is the member named "")
            {
                let docs = [
                    json!({"": "empty-key", "a": {"": 1, "b": [10, {"c": null}], "~": "t", "/": "s"}, "r": {"x": 1}, "s": [0, 1], "0": "zero"}),
                    json!([["x", {"": 5}], 2]),
                    json!("scalar"),
                    json!({"a": 1}),
                ];
                let mut ptrs: Vec<String> = paths.clone();
                for extra in ["", "/", "//", "/a", "/a/", "/a//", "/a/b/0", "/a/b/1/c", "/a/b/2", "/a/b/01", "/a/~0", "/a/~1", "/0", "/0/1/", "/0/1", "/1", "a", "/s/1", "/s/-", "/r/x", "/r/x/"] { ptrs.push(extra.to_string()); }
                for doc in &docs {
                    for ptr in &ptrs {
                        let toks = repe::parse_json_pointer(ptr);
                        let mut cur = Some(doc);
                        for t in &toks {
                            cur = match cur { Some(serde_json::Value::Object(m)) => m.get(t), Some(serde_json::Value::Array(a)) => t.parse::<usize>().ok().and_then(|i| a.get(i)), _ => None };
                        }
                        let got = repe::eval_json_pointer(doc, ptr);
                        if got != cur { return Err(format!("eval_json_pointer({doc}, {ptr:?}) = {got:?}; walking the document along the tokens {toks:?} gives {cur:?}")); }
                    }
                }
            }
            // registration orders: 0 = exact routes, 1 = registry mount, 2 = struct mount, 3 = middleware
            let mut orders: Vec<Vec<u8>> = Vec::new();
            fn perms(cur: &mut Vec<u8>, rest: &mut Vec<u8>, out: &mut Vec<Vec<u8>>) {
                if rest.is_empty() { out.push(cur.clone()); return; }
                for i in 0..rest.len() { let x = rest.remove(i); cur.push(x); perms(cur, rest, out); cur.pop(); rest.insert(i, x); }
            }
            perms(&mut Vec::new(), &mut vec![0, 1, 2, 3], &mut orders);
            orders.push(vec![0, 1, 2]); // no middleware at all
            // two middlewares around the other registrations: each must run exactly once per request for every route kind
            for o in [vec![0, 1, 2, 3, 4], vec![3, 4, 0, 1, 2], vec![3, 0, 1, 2, 4], vec![1, 3, 4, 0, 2], vec![2, 1, 3, 0, 4]] { orders.push(o); }
            let mut cases = 0usize;
            for (oi, order) in orders.iter().enumerate() {
                let hits = Arc::new(AtomicUsize::new(0));
                let hits2 = Arc::new(AtomicUsize::new(0));
                let seen = Arc::new(Mutex::new(Vec::new()));
                let registry = Arc::new(Registry::new());
                let mut router = Router::new();
                for step in order {
                    match step {
                        0 => { for e in exact { let tag = e.to_string(); router = router.with_json(e, move |_v| Ok(json!(format!("exact:{tag}")))); } }
                        1 => { router.register_registry("/r", registry.clone()); }
                        2 => { router.register_struct("/s", Rec { seen: seen.clone() }); }
                        3 => { let h = hits.clone(); router.register_middleware(move |req: &Message, next: Next<'_>| -> Result<Message, RepeError> { h.fetch_add(1, Ordering::SeqCst); next.run(req) }); }
                        _ => { let h = hits2.clone(); router.register_middleware(move |req: &Message, next: Next<'_>| -> Result<Message, RepeError> { h.fetch_add(1, Ordering::SeqCst); next.run(req) }); }
                    }
                }
                let has_mw = order.contains(&3);
                // on the orders after the first, only a thinned path set (the resolution logic does not depend on the order; the middleware wrapping does)
                for (pi, path) in paths.iter().enumerate() {
                    if oi > 0 && pi % 7 != oi % 7 { continue; }
                    cases += 1;
                    let want: u8 = if exact.contains(&path.as_str()) { 0 } else if mounted("/r", path) { 1 } else if mounted("/s", path) { 2 } else { 9 };
                    let got = router.get(path);
                    if got.is_some() != (want != 9) { return Err(format!("order {order:?}: Router::get({path:?}) is_some={} but the oracle says kind {want}", got.is_some())); }
                    let Some(handler) = got else { continue };
                    let req = Message::builder().id(5).query_str(path).body_json(&json!(7)).map_err(|e| e.to_string())?.build();
                    let before = hits.load(Ordering::SeqCst);
                    let before2 = hits2.load(Ordering::SeqCst);
                    match want {
                        0 => {
                            let resp = handler.handle(&req).map_err(|e| format!("exact route {path:?} failed: {e}"))?;
                            let val: Value = serde_json::from_slice(&resp.body).map_err(|e| e.to_string())?;
                            if resp.header.ec != 0 || val != json!(format!("exact:{path}")) { return Err(format!("order {order:?}: path {path:?} is registered exactly but was answered by something else: ec={} body={val}", resp.header.ec)); }
                        }
                        1 => {
                            let rest = &path["/r".len()..];
                            // the registry's own convention: "" and "/" both address its root
                            let Some(toks) = (if rest == "/" { Some(vec![]) } else { tokens(rest) }) else { continue };
                            // make every parent exist so that the write succeeds iff the registry is handed exactly `rest`
                            let mut doc = json!({});
                            { let mut cur = &mut doc; for t in toks.iter().take(toks.len().saturating_sub(1)) { cur.as_object_mut().unwrap().insert(t.clone(), json!({})); cur = cur.get_mut(t).unwrap(); } }
                            registry.set_root(doc);
                            let resp = handler.handle(&req).map_err(|e| format!("registry mount {path:?} failed: {e}"))?;
                            let val: Value = serde_json::from_slice(&resp.body).unwrap_or(Value::Null);
                            if toks.is_empty() {
                                // a root write of a non-object is refused; the mount point itself maps to "/"
                                if resp.header.ec == 0 { return Err(format!("root write of a number through the mount {path:?} was accepted: {val}")); }
                            } else {
                                if resp.header.ec != 0 || val["path"] != json!(canonical(&toks)) { return Err(format!("order {order:?}: registry mounted at /r was not handed exactly {rest:?} for path {path:?}: ec={} response={val} body={:?}", resp.header.ec, String::from_utf8_lossy(&resp.body))); }
                                let back = registry.read_value(&canonical(&toks)).map_err(|e| format!("read back of {:?} failed: {e}", canonical(&toks)))?;
                                if back != json!(7) { return Err(format!("value written through {path:?} is not at {:?}", canonical(&toks))); }
                            }
                        }
                        _ => {
                            let rest = &path["/s".len()..];
                            let Some(toks) = tokens(rest) else { continue };
                            seen.lock().unwrap().clear();
                            let resp = handler.handle(&req).map_err(|e| format!("struct mount {path:?} failed: {e}"))?;
                            let s = seen.lock().unwrap().clone();
                            if resp.header.ec != 0 || s.len() != 1 || s[0] != toks { return Err(format!("order {order:?}: struct mounted at /s saw segments {s:?} for path {path:?}; RFC 6901 tokens of {rest:?} are {toks:?} (ec={})", resp.header.ec)); }
                        }
                    }
                    let ran = hits.load(Ordering::SeqCst) - before;
                    let calls = if want == 1 && tokens(&path["/r".len()..]).is_some() { 1 } else if want == 1 { 0 } else { 1 };
                    if calls == 1 && ran != has_mw as usize { return Err(format!("order {order:?}: the forwarding middleware ran {ran} times for one request to {path:?} (kind {want}); expected {}", has_mw as usize)); }
                    let ran2 = hits2.load(Ordering::SeqCst) - before2;
                    if calls == 1 && ran2 != order.contains(&4) as usize { return Err(format!("order {order:?}: the second forwarding middleware ran {ran2} times for one request to {path:?} (kind {want}); expected {}", order.contains(&4) as usize)); }
                }
            }
            // ---- a struct mounted at the root, spelled "" or "/": every path reaches it with its RFC 6901 tokens ----
            for root in ["", "/"] {
                let seen = Arc::new(Mutex::new(Vec::new()));
                let r = Router::new().with_struct_shared(root, Arc::new(Mutex::new(Rec { seen: seen.clone() })));
                for path in ["", "/", "/a", "/a/b", "/a~1b/c", "/a/"] {
                    let Some(toks) = tokens(path) else { continue };
                    let Some(h) = r.get(path) else { return Err(format!("a struct mounted at the root (spelled {root:?}) does not receive path {path:?}")) };
                    seen.lock().unwrap().clear();
                    let req = Message::builder().id(3).query_str(path).build();
                    let resp = h.handle(&req).map_err(|e| e.to_string())?;
                    let sn = seen.lock().unwrap().clone();
                    if resp.header.ec != 0 || sn.len() != 1 || sn[0] != toks { return Err(format!("a struct mounted at the root (spelled {root:?}) saw segments {sn:?} for path {path:?}; its RFC 6901 tokens are {toks:?} (ec={})", resp.header.ec)); }
                    cases += 1;
                }
            }
            // ---- mount prefixes are normalised: with or without the leading slash, with or without a trailing one ----
            for (spelling, canonical) in [("api", "/api"), ("/api", "/api"), ("api/", "/api"), ("/api/", "/api"), ("v2/api", "/v2/api"), ("/v2/api/", "/v2/api"), ("a", "/a")] {
                let reg = Arc::new(Registry::new());
                reg.register_value("/slot", json!(41)).unwrap();
                let seen = Arc::new(Mutex::new(Vec::new()));
                for kind in ["registry", "struct"] {
                    // (a trailing slash is normalised away for registry mounts only)
                    if kind == "struct" && spelling.ends_with('/') { continue; }
                    let r = if kind == "registry" { Router::new().with_registry(spelling, reg.clone()) } else { Router::new().with_struct_shared(spelling, Arc::new(Mutex::new(Rec { seen: seen.clone() }))) };
                    let path = format!("{canonical}/slot");
                    let Some(h) = r.get(&path) else { return Err(format!("a {kind} mounted with the prefix spelled {spelling:?} does not receive {path:?}")) };
                    let resp = h.handle(&Message::builder().id(4).query_str(&path).build()).map_err(|e| e.to_string())?;
                    if resp.header.ec != 0 { return Err(format!("a {kind} mounted with the prefix spelled {spelling:?} answered {path:?} with ec {}", resp.header.ec)); }
                    if kind == "registry" && resp.json_body::<Value>().ok() != Some(json!(41)) { return Err(format!("a registry mounted as {spelling:?} answered {path:?} with {:?}", String::from_utf8_lossy(&resp.body))); }
                    if r.get(&format!("{canonical}x/slot")).is_some() { return Err(format!("a {kind} mounted as {spelling:?} also claims {canonical}x/slot")); }
                    cases += 1;
                }
            }
            // ---- owned vs borrowed vs middleware-wrapped, built-in handler kinds x body formats x bodies ----
            #[derive(serde::Serialize, serde::Deserialize)]
            struct P { a: i64 }
            #[derive(serde::Serialize, serde::Deserialize)]
            struct S2 { s: String }
            let build = |mw: usize| {
                let mut r = Router::new()
                    .with_json("/json", |v| if v == json!(13) { Err((repe::ErrorCode::InvalidBody, "thirteen".into())) } else { Ok(json!({"got": v})) })
                    .with_typed("/typed", |p: P| Ok::<_, (repe::ErrorCode, String)>(P { a: p.a + 1 }))
                    .with_typed("/typed_s", |p: S2| Ok::<_, (repe::ErrorCode, String)>(S2 { s: format!("{}!", p.s) }))
                    .with_typed_slice("/slice", |x: Vec<f64>| Ok::<_, (repe::ErrorCode, String)>(x.iter().map(|y| y * 2.0).collect::<Vec<f64>>()))
                    .with_typed_slice_ref("/sliceref", |x: &[u32]| Ok::<_, (repe::ErrorCode, String)>(x.iter().map(|y| y.wrapping_add(1)).collect::<Vec<u32>>()));
                // the two mount kinds: a registry (decodes the body itself) and a struct
                let reg = Arc::new(Registry::new());
                reg.register_value("/slot", json!({"keep": 1})).unwrap();
                r = r.with_registry("/reg", reg).with_struct_shared("/st", Arc::new(Mutex::new(Rec { seen: Arc::new(Mutex::new(Vec::new())) })));
                for _ in 0..mw { r.register_middleware(|req: &Message, next: Next<'_>| -> Result<Message, RepeError> { next.run(req) }); }
                r
            };
            let routers = [build(0), build(1), build(3)];
            let mut bodies: Vec<Vec<u8>> = vec![vec![0x22, 0xff, 0x22], b"{\"s\":\"\xff\xfe\"}".to_vec(), b"{\"s\":\"ok\"}".to_vec(), vec![], b"7".to_vec(), b"13".to_vec(), b"{\"a\":4}".to_vec(), b"{\"a\":".to_vec(), vec![0xff, 0xfe], b" 7 ".to_vec(), b"\"x\"".to_vec()];
            bodies.push(beve::to_vec(&json!({"a": 4})).unwrap());
            bodies.push(beve::to_vec(&vec![1.5f64, -2.0]).unwrap());
            bodies.push(beve::to_vec(&vec![1u32, u32::MAX]).unwrap());
            bodies.push(beve::to_vec(&Vec::<f64>::new()).unwrap());
            { let mut t = beve::to_vec(&vec![1.5f64, -2.0]).unwrap(); t.pop(); bodies.push(t); }
            let formats: [u16; 7] = [0, 1, 2, 3, 4, 999, u16::MAX];
            // the dispatch layer echoes the request query into a response whose query is empty (documented on HandlerErased);
            // responses are compared after that step, which is where a client sees them
            let show = |r: &Result<Message, RepeError>, rq: &[u8]| match r { Ok(m) => format!("Ok(ec={} qf={} bf={} q={:?} body={:?})", m.header.ec, m.header.query_format, m.header.body_format, if m.query.is_empty() { rq } else { &m.query[..] }, m.body), Err(e) => format!("Err({e})") };
            for path in ["/json", "/typed", "/typed_s", "/slice", "/sliceref", "/reg/slot", "/st/x"] {
                for &bf in &formats { for body in &bodies {
                    let mut req = Message::builder().id(9).query_str(path).body_bytes(body.clone()).build();
                    req.header.body_format = bf;
                    let wire = req.to_vec();
                    let view = MessageView::from_slice(&wire).map_err(|e| e.to_string())?;
                    let ctx = repe::CallContext::detached(path);
                    let mut outs = Vec::new();
                    for r in &routers {
                        let h = r.get(path).ok_or("route missing")?;
                        outs.push(("owned", show(&h.handle(&req), &req.query)));
                        outs.push(("owned+ctx", show(&h.handle_with_ctx(&req, &ctx), &req.query)));
                        outs.push(("borrowed", show(&h.handle_view(&view, &ctx), &req.query)));
                    }
                    if let Some(bad) = outs.iter().find(|o| o.1 != outs[0].1) {
                        return Err(format!("{path} body_format={bf} body={body:?}: the {} path answered {} but the owned path answered {}", bad.0, bad.1, outs[0].1));
                    }
                    cases += 1;
                } }
            }
            Ok(format!("{cases} route-shape cases held ({} paths, {} registration orders)", paths.len(), orders.len()))
        }
        "registry_sweep" => {
            // Bounded stand-in for C14: every sequence of length <= `len` over a fixed alphabet of reads, writes,
            // calls, empty-body requests, registrations and merges, through the public Registry API, against a
            // plain JSON document plus a set of callables (an independent RFC 6901 implementation).
            use repe::{ErrorCode, Registry};
            use serde_json::{json, Map, Value};
            use std::sync::{Arc, Mutex};
            let len = v.get("len").and_then(|x| x.as_u64()).unwrap_or(3) as usize;
            // ---- model ----
            fn tokens(ptr: &str) -> Result<Vec<String>, ()> {
                if ptr.is_empty() || ptr == "/" { return Ok(vec![]); }
                if !ptr.starts_with('/') { return Err(()); }
                let mut out = Vec::new();
                for raw in ptr[1..].split('/') {
                    let b: Vec<char> = raw.chars().collect();
                    let mut t = String::new();
                    let mut i = 0;
                    while i < b.len() {
                        if b[i] == '~' { match b.get(i + 1) { Some('0') => t.push('~'), Some('1') => t.push('/'), _ => return Err(()) } i += 2; }
                        else { t.push(b[i]); i += 1; }
                    }
                    out.push(t);
                }
                Ok(out)
            }
            fn canonical(toks: &[String]) -> String {
                if toks.is_empty() { return "/".into(); }
                toks.iter().map(|t| format!("/{}", t.replace('~', "~0").replace('/', "~1"))).collect()
            }
            fn get<'a>(doc: &'a Value, toks: &[String]) -> Option<&'a Value> {
                let mut cur = doc;
                for t in toks {
                    cur = match cur { Value::Object(m) => m.get(t)?, Value::Array(a) => a.get(t.parse::<usize>().ok()?)?, _ => return None };
                }
                Some(cur)
            }
            fn get_mut<'a>(doc: &'a mut Value, toks: &[String]) -> Option<&'a mut Value> {
                let mut cur = doc;
                for t in toks {
                    cur = match cur { Value::Object(m) => m.get_mut(t)?, Value::Array(a) => a.get_mut(t.parse::<usize>().ok()?)?, _ => return None };
                }
                Some(cur)
            }
            #[derive(Clone, Debug, PartialEq)]
            enum Out { Val(Value), WroteAt(String), NotFound, InvalidBody, Other(u32) }
            #[derive(Clone)]
            struct Model { doc: Value, funcs: Vec<String>, calls: Vec<(String, Value)> }
            impl Model {
                fn dispatch(&mut self, p: &str, body: Option<Value>) -> Out {
                    let Ok(toks) = tokens(p) else { return Out::NotFound };
                    let canon = canonical(&toks);
                    let is_fn = !toks.is_empty() && self.funcs.contains(&canon);
                    match body {
                        None => {
                            if is_fn { return Out::Val(json!({"type": "function", "path": canon})); }
                            match get(&self.doc, &toks) { Some(x) => Out::Val(x.clone()), None => Out::NotFound }
                        }
                        Some(b) => {
                            if is_fn { self.calls.push((canon.clone(), b.clone())); return Out::Val(json!({"called": canon, "with": b})); }
                            if toks.is_empty() {
                                let Value::Object(o) = b else { return Out::InvalidBody };
                                if !self.doc.is_object() { self.doc = json!({}); }
                                for (k, x) in o { self.doc.as_object_mut().unwrap().insert(k, x); }
                                return Out::WroteAt("/".into());
                            }
                            let (last, parents) = toks.split_last().unwrap();
                            match get_mut(&mut self.doc, parents) {
                                Some(Value::Object(m)) => { m.insert(last.clone(), b); Out::WroteAt(canon) }
                                Some(Value::Array(a)) => match last.parse::<usize>().ok().and_then(|i| a.get_mut(i)) { Some(slot) => { *slot = b; Out::WroteAt(canon) } None => Out::NotFound },
                                _ => Out::NotFound,
                            }
                        }
                    }
                }
            }
            fn class(code: ErrorCode) -> Out { match code { ErrorCode::MethodNotFound => Out::NotFound, ErrorCode::InvalidBody => Out::InvalidBody, other => Out::Other(other as u32) } }
            // ---- operation alphabet ----
            #[derive(Clone, Debug)]
            enum Op { Req(&'static str, Option<Value>), Merge(Value), MergeAt(&'static str, Value), Register(&'static str, Value), RegisterFn(&'static str), SetRoot(Value) }
            let pointers = ["", "/", "/a", "/a/b", "/a/n", "/arr/1", "/arr/7", "/arr/x", "/s/t", "/c~1d", "/t~0", "/u~01", "/f", "/a/g~1h", "/g2", "/zz/y", "/a~", "/a~2b", "a", "/a/"];
            let mut ops: Vec<Op> = Vec::new();
            for p in pointers { ops.push(Op::Req(p, None)); }
            for p in pointers { for val in [json!(5), json!({"b": {"k": 1}})] { ops.push(Op::Req(p, Some(val))); } }
            for p in ["/a", "/f", "/a/b", ""] { ops.push(Op::Req(p, Some(Value::Null))); }
            ops.push(Op::Req("/a", Some(json!("str"))));
            // root writes that overwrite keys already in the document
            ops.push(Op::Req("", Some(json!({"a": 77, "fresh": 1}))));
            ops.push(Op::Req("/", Some(json!({"s": {"now": "object"}, "arr": null}))));
            ops.push(Op::Req("/arr", Some(json!({"o": 1}))));
            ops.push(Op::Merge(json!({"a": 9, "q": [1]})));
            for p in ["/a", "/c~1d", "/u~01", "/t~0", "/arr", "/a/b", "/nope", "", "a"] { ops.push(Op::MergeAt(p, json!({"m": 1}))); }
            for p in ["/a/n", "/c~1d/k", "/u~01", "/s/t", "/new/deep", "x~0y", "//x", "//a/b"] { ops.push(Op::Register(p, json!(3))); }
            // merges over keys that already exist in the target object
            ops.push(Op::MergeAt("/a", json!({"b": 5, "extra": true})));
            ops.push(Op::MergeAt("", json!({"s": "merged", "a": {"b": 2}})));
            ops.push(Op::MergeAt("//x", json!({"m": 1})));
            ops.push(Op::Req("//x", None));
            ops.push(Op::Req("//x", Some(json!(5))));
            // (re-)registering a callable lays down its object parents every time, whatever happened to the tree in between
            // (multi-step histories: register, replace the root or the parent, register again); set_root replaces the document only
            for p in ["/f", "/a/g~1h", "/api/run", "/s/fn", "g2"] { ops.push(Op::RegisterFn(p)); }
            ops.push(Op::SetRoot(json!({"version": 2})));
            ops.push(Op::SetRoot(json!(7)));
            let n = ops.len();
            let probe: Vec<&str> = pointers.iter().copied().filter(|p| tokens(p).is_ok()).collect();
            let mut idx = vec![0usize; len];
            let mut count = 0u64;
            loop {
                let calls: Arc<Mutex<Vec<(String, Value)>>> = Arc::new(Mutex::new(Vec::new()));
                let reg = Registry::new();
                let init = json!({"a": {"b": 1}, "arr": [10, 20], "s": "str", "c/d": 3, "t~": 4, "u~1": 6, "u/": 7});
                reg.set_root(init.clone());
                // the third callable is registered WITHOUT the leading slash; it lives at the pointer /g2 all the same
                for (f, at) in [("/f", "/f"), ("/a/g~1h", "/a/g~1h"), ("g2", "/g2")] {
                    let c = calls.clone();
                    let name = at.to_string();
                    reg.register_function(f, move |b: Option<Value>| { let b = b.unwrap_or(Value::Null); c.lock().unwrap().push((name.clone(), b.clone())); Ok(json!({"called": name, "with": b})) }).map_err(|e| e.to_string())?;
                }
                let mut model = Model { doc: init, funcs: vec!["/f".into(), "/a/g~1h".into(), "/g2".into()], calls: vec![] };
                for (step, &i) in idx.iter().enumerate() {
                    let op = ops[i].clone();
                    let ctx = || format!("history {:?} step {step}", idx.iter().map(|j| format!("{:?}", ops[*j])).collect::<Vec<_>>());
                    let before: Vec<Option<Value>> = probe.iter().map(|p| reg.dispatch(p, None).ok()).collect();
                    match op.clone() {
                        Op::Req(p, body) => {
                            let want = model.dispatch(p, body.clone());
                            let got = match reg.dispatch(p, body.clone()) {
                                Ok(x) => if body.is_some() && x.get("status") == Some(&json!("ok")) && x.as_object().map(|o| o.len()) == Some(2) { Out::WroteAt(x["path"].as_str().unwrap_or("?").to_string()) } else { Out::Val(x) },
                                Err(e) => class(e.code()),
                            };
                            if got != want { return Err(format!("{}: dispatch({p:?}, {body:?}) answered {got:?}; a JSON document plus callables answers {want:?}", ctx())); }
                            // laws stated by the property, checked on the real registry alone
                            let after: Vec<Option<Value>> = probe.iter().map(|q| reg.dispatch(q, None).ok()).collect();
                            if body.is_none() && after != before { return Err(format!("{}: an empty-body request to {p:?} changed the registry", ctx())); }
                            if let (Some(b), Out::WroteAt(at), Ok(pt)) = (&body, &got, tokens(p)) {
                                if !pt.is_empty() {
                                    if reg.dispatch(p, None).ok().as_ref() != Some(b) { return Err(format!("{}: the value written to {p:?} (answered path {at}) is not returned by the next read", ctx())); }
                                    for (k, q) in probe.iter().enumerate() {
                                        let qt = tokens(q).unwrap();
                                        let related = qt.len() >= pt.len() && qt[..pt.len()] == pt[..] || pt.len() >= qt.len() && pt[..qt.len()] == qt[..];
                                        if !related && before[k] != after[k] { return Err(format!("{}: writing {p:?} changed the unrelated pointer {q:?}: {:?} -> {:?}", ctx(), before[k], after[k])); }
                                    }
                                }
                            }
                        }
                        Op::MergeAt(p, obj) => {
                            let Value::Object(o) = obj else { unreachable!() };
                            // registration paths may omit the leading slash
                            let norm = if p.is_empty() || p.starts_with('/') { p.to_string() } else { format!("/{p}") };
                            let got = reg.merge_at(p, o.clone()).map_err(|e| class(e.code()));
                            let want: Result<(), Out> = match tokens(&norm) {
                                Err(()) => Err(Out::NotFound),
                                Ok(t) if t.is_empty() => { if !model.doc.is_object() { model.doc = json!({}); } for (k, x) in o.clone() { model.doc.as_object_mut().unwrap().insert(k, x); } Ok(()) }
                                Ok(t) => match get_mut(&mut model.doc, &t) { Some(Value::Object(m)) => { for (k, x) in o.clone() { m.insert(k, x); } Ok(()) } _ => Err(Out::NotFound) },
                            };
                            if got != want { return Err(format!("{}: merge_at({p:?}) answered {got:?}; a JSON document answers {want:?}", ctx())); }
                        }
                        Op::Register(p, val) => {
                            let norm = if p.is_empty() || p.starts_with('/') { p.to_string() } else { format!("/{p}") };
                            let got = reg.register_value(p, val.clone()).map_err(|e| class(e.code()));
                            let want: Result<(), Out> = match tokens(&norm) {
                                Err(()) => Err(Out::NotFound),
                                Ok(t) if t.is_empty() => { model.doc = val.clone(); Ok(()) }
                                Ok(t) => {
                                    // "creating missing object parents": a non-object on the way is replaced by an object
                                    if !model.doc.is_object() { model.doc = json!({}); }
                                    let mut cur = &mut model.doc;
                                    for k in &t[..t.len() - 1] {
                                        let m = cur.as_object_mut().unwrap();
                                        let e = m.entry(k.clone()).or_insert_with(|| json!({}));
                                        if !e.is_object() { *e = json!({}); }
                                        cur = e;
                                    }
                                    cur.as_object_mut().unwrap().insert(t[t.len() - 1].clone(), val.clone());
                                    Ok(())
                                }
                            };
                            if got != want { return Err(format!("{}: register_value({p:?}) answered {got:?}; a JSON document answers {want:?}", ctx())); }
                        }
                        Op::RegisterFn(p) => {
                            let norm = if p.is_empty() || p.starts_with('/') { p.to_string() } else { format!("/{p}") };
                            let t = tokens(&norm).map_err(|_| "bad RegisterFn pointer in the alphabet".to_string())?;
                            let name = canonical(&t);
                            let c = calls.clone();
                            let nm = name.clone();
                            reg.register_function(p, move |b: Option<Value>| { let b = b.unwrap_or(Value::Null); c.lock().unwrap().push((nm.clone(), b.clone())); Ok(json!({"called": nm, "with": b})) })
                                .map_err(|e| format!("{}: register_function({p:?}) failed: {e}", ctx()))?;
                            if !model.doc.is_object() { model.doc = json!({}); }
                            let mut cur = &mut model.doc;
                            for k in &t[..t.len() - 1] {
                                let m = cur.as_object_mut().unwrap();
                                let e = m.entry(k.clone()).or_insert_with(|| json!({}));
                                if !e.is_object() { *e = json!({}); }
                                cur = e;
                            }
                            if !model.funcs.contains(&name) { model.funcs.push(name); }
                        }
                        Op::SetRoot(val) => {
                            reg.set_root(val.clone());
                            model.doc = val;
                        }
                        Op::Merge(obj) => {
                            let Value::Object(o) = obj else { unreachable!() };
                            let m: Map<String, Value> = o.clone();
                            reg.merge_root(m).map_err(|e| format!("{}: merge_root failed: {e}", ctx()))?;
                            if !model.doc.is_object() { model.doc = json!({}); }
                            for (k, x) in o { model.doc.as_object_mut().unwrap().insert(k, x); }
                        }
                    }
                    // read_value is the in-process twin of an empty-body dispatch: same answer for every pointer that is not a callable
                    for q in pointers.iter().copied().chain(["//x", "/t~", "counter", "a/b"]) {
                        let d = reg.dispatch(q, None);
                        if let Ok(v) = &d { if v.get("type") == Some(&json!("function")) { continue; } }
                        let r = reg.read_value(q);
                        let same = match (&d, &r) { (Ok(x), Ok(y)) => x == y, (Err(x), Err(y)) => class(x.code()) == class(y.code()), _ => false };
                        if !same { return Err(format!("{}: read_value({q:?}) answered {:?} but an empty-body dispatch of the same pointer answered {:?}", ctx(), r.as_ref().map_err(|e| e.to_string()), d.as_ref().map_err(|e| e.to_string()))); }
                    }
                    let doc = reg.read_value("").map_err(|e| format!("{}: reading the root failed: {e}", ctx()))?;
                    if doc != model.doc { return Err(format!("{}: after {op:?} the registry holds {doc} but a JSON document would hold {}", ctx(), model.doc)); }
                    if *calls.lock().unwrap() != model.calls { return Err(format!("{}: callables were invoked as {:?}; expected exactly {:?}", ctx(), calls.lock().unwrap(), model.calls)); }
                }
                count += 1;
                let mut k = 0;
                loop {
                    if k == len { return Ok(format!("{count} histories of length {len} over {n} operations held")); }
                    idx[k] += 1;
                    if idx[k] < n { break; }
                    idx[k] = 0;
                    k += 1;
                }
            }
        }
        "transfer_wake_scenarios" => {
            // Bounded stand-in for C12 (a schedule sample, not a proof): a producer thread parks in wait_for_credit /
            // wait_for_reconnect with a 6 s deadline; 150 ms later another thread fires one event that enables it; the
            // waiter must return the matching outcome within 3 s. Correct code returns within microseconds of the
            // event, so the margin is only there to absorb machine load.
            use repe::stream::{CreditError, ReconnectOutcome, TransferControl};
            use std::sync::Arc;
            use std::time::{Duration, Instant};
            struct S;
            impl repe::PeerSink for S { fn send_notify(&self, _m: &str, _b: repe::NotifyBody) -> Result<(), repe::PeerSendError> { Ok(()) } }
            let peer = || repe::PeerHandle::new(repe::PeerId(1), Arc::new(S));
            #[derive(Debug)]
            enum W { Credit(Result<(), String>), Reconnect(String) }
            let run = |name: &str, setup: &dyn Fn(&TransferControl), waiter: u8, chunk: u64, event: &(dyn Fn(&TransferControl) + Sync), expect: &str| -> Result<(), String> {
                let ctl = Arc::new(TransferControl::with_replay_capacity(1000, 1 << 20));
                setup(&ctl);
                let c2 = ctl.clone();
                let t0 = Instant::now();
                let h = std::thread::spawn(move || {
                    if waiter == 0 {
                        W::Credit(c2.wait_for_credit(chunk, Instant::now() + Duration::from_secs(6)).map_err(|e| match e { CreditError::Cancelled(r) => format!("cancelled:{r}"), CreditError::Timeout => "timeout".into() }))
                    } else {
                        W::Reconnect(match c2.wait_for_reconnect(Duration::from_secs(6)) { ReconnectOutcome::ResumeReady(p) => format!("resume:{}", p.resume_at_offset), ReconnectOutcome::Cancelled(r) => format!("cancelled:{r}"), ReconnectOutcome::Timeout => "timeout".into() })
                    }
                });
                std::thread::sleep(Duration::from_millis(150));
                if h.is_finished() { return Err(format!("{name}: the waiter did not park (returned before the event)")); }
                event(&ctl);
                let out = h.join().map_err(|_| format!("{name}: waiter panicked"))?;
                let el = t0.elapsed();
                let got = match &out { W::Credit(Ok(())) => "ok".to_string(), W::Credit(Err(e)) => e.clone(), W::Reconnect(s) => s.clone() };
                if el > Duration::from_secs(3) { return Err(format!("{name}: the parked producer was not woken by the event it waits for: returned {got:?} after {:.1} s (event fired at 0.15 s, deadline 6 s)", el.as_secs_f64())); }
                if got != expect { return Err(format!("{name}: woken, but returned {got:?}; expected {expect:?}")); }
                Ok(())
            };
            let full = |c: &TransferControl| { c.record_sent(1000); };
            let part = |c: &TransferControl| { c.record_sent(600); };
            let ring = |c: &TransferControl| { for i in 0..4u64 { c.push_replay(i * 256, 256, false, vec![0u8; 8]); } c.record_sent(1024); };
            let none = |_c: &TransferControl| {};
            run("credit/ack-full-window", &full, 0, 500, &|c| { c.record_ack(0, 500); }, "ok")?;
            run("credit/ack-partly-used-window", &part, 0, 500, &|c| { c.record_ack(0, 300); }, "ok")?;
            run("credit/ack-to-zero-oversized-chunk", &full, 0, 5000, &|c| { c.record_ack(0, 1000); }, "ok")?;
            run("credit/cancel", &full, 0, 500, &|c| { c.cancel("stop"); }, "cancelled:stop")?;
            run("credit/advance-to-file", &full, 0, 500, &|c| { c.advance_to_file(1); }, "ok")?;
            run("credit/resume-frees-credit", &ring, 0, 256, &|c| { let _ = c.request_resume(peer(), 0, 512); }, "ok")?;
            run("credit/second-resume-frees-credit", &ring, 0, 256, &|c| { let _ = c.request_resume(peer(), 0, 0); let _ = c.request_resume(peer(), 0, 512); }, "ok")?;
            run("reconnect/resume", &ring, 1, 0, &|c| { let _ = c.request_resume(peer(), 0, 256); }, "resume:256")?;
            run("reconnect/cancel", &none, 1, 0, &|c| { c.cancel("gone"); }, "cancelled:gone")?;
            // the reconnect window is an absolute deadline: unrelated wake-ups (straggler acks) must not re-arm it
            {
                let ctl = Arc::new(TransferControl::with_replay_capacity(1000, 1 << 20));
                ctl.record_sent(500);
                let c2 = ctl.clone();
                let stop = Arc::new(std::sync::atomic::AtomicBool::new(false));
                let st2 = stop.clone();
                let trickle = std::thread::spawn(move || { let mut k = 1u64; let t = Instant::now(); while !st2.load(std::sync::atomic::Ordering::SeqCst) && t.elapsed() < Duration::from_secs(4) { c2.record_ack(0, k); k += 1; std::thread::sleep(Duration::from_millis(150)); } });
                let t0 = Instant::now();
                let out = ctl.wait_for_reconnect(Duration::from_millis(900));
                let el = t0.elapsed();
                stop.store(true, std::sync::atomic::Ordering::SeqCst);
                let _ = trickle.join();
                if !matches!(out, ReconnectOutcome::Timeout) { return Err(format!("reconnect/deadline: expected Timeout, got {out:?}")); }
                if el > Duration::from_millis(2500) { return Err(format!("reconnect/deadline: wait_for_reconnect(900 ms) returned Timeout only after {:.1} s while unrelated acks kept arriving every 150 ms: each wake-up re-armed the whole window", el.as_secs_f64())); }
            }
            Ok("10 wake-up scenarios held".to_string())
        }
        "client_stalled_writer_then_malformed" => {
            // C06 scenario: one call is in flight (request read by the peer, no response yet); a second caller's large
            // notify is stalled mid-write because the peer stopped reading (it holds the client's writer lock); the
            // peer then delivers a malformed frame. Property: every call in flight returns an error rather than
            // blocking forever. Watchdog: the in-flight call must return within `watchdog_ms` of the malformed frame.
            use std::io::{Read as _, Write as _};
            use std::time::{Duration, Instant};
            let which = v.get("client").and_then(|x| x.as_str()).unwrap_or("blocking").to_string();
            let watchdog = Duration::from_millis(v.get("watchdog_ms").and_then(|x| x.as_u64()).unwrap_or(3000));
            let big = v.get("notify_bytes").and_then(|x| x.as_u64()).unwrap_or(32 << 20) as usize;
            let listener = std::net::TcpListener::bind("127.0.0.1:0").map_err(|e| e.to_string())?;
            let addr = listener.local_addr().unwrap();
            let (go_tx, go_rx) = std::sync::mpsc::channel::<()>();
            let (done_tx, done_rx) = std::sync::mpsc::channel::<()>();
            let server = std::thread::spawn(move || {
                let (mut s, _) = listener.accept().unwrap();
                // read exactly the first (small) request, then stop reading
                let first = repe::read_message(&mut s).unwrap();
                go_rx.recv().ok();                       // the big notify is now stalled
                let mut bad = repe::Header::new();
                bad.id = first.header.id;
                let mut bytes = bad.encode().to_vec();
                bytes[8] = 0; bytes[9] = 0;              // spec = 0: malformed
                let _ = s.write_all(&bytes);
                let _ = s.flush();
                done_rx.recv_timeout(Duration::from_secs(20)).ok();   // keep the socket open, never read again
                let mut sink = [0u8; 1];
                let _ = s.set_read_timeout(Some(Duration::from_millis(10)));
                let _ = s.read(&mut sink);
            });
            let res: Result<String, String> = match which.as_str() {
                "blocking" => {
                    let client = repe::Client::connect(addr).map_err(|e| e.to_string())?;
                    let c1 = client.clone();
                    let (r_tx, r_rx) = std::sync::mpsc::channel();
                    std::thread::spawn(move || { let r = c1.call_json("/in-flight", &serde_json::json!(1)); let _ = r_tx.send(r.map(|_| ()).map_err(|e| e.to_string())); });
                    std::thread::sleep(Duration::from_millis(300));
                    let c2 = client.clone();
                    let stalled = std::sync::Arc::new(std::sync::atomic::AtomicBool::new(true));
                    let st2 = stalled.clone();
                    std::thread::spawn(move || { let payload = vec![0x41u8; big]; let r = c2.notify_with_formats("/big", 1, Some(&payload), 0); let _ = r; st2.store(false, std::sync::atomic::Ordering::SeqCst); });
                    std::thread::sleep(Duration::from_millis(700));
                    if !stalled.load(std::sync::atomic::Ordering::SeqCst) { return Err("setup: the large notify did not stall".into()); }
                    go_tx.send(()).ok();
                    let t0 = Instant::now();
                    match r_rx.recv_timeout(watchdog) {
                        Ok(Err(e)) => Ok(format!("in-flight call failed after {:?}: {e}", t0.elapsed())),
                        Ok(Ok(())) => Err("in-flight call returned Ok although its connection delivered a malformed frame".into()),
                        Err(_) => Err(format!("the in-flight call is still blocked {:?} after the malformed frame arrived (another caller's stalled write holds the writer lock that fail_all_pending takes before it fails the waiters)", watchdog)),
                    }
                }
                "async" => {
                    let rt = tokio::runtime::Builder::new_multi_thread().worker_threads(4).enable_all().build().unwrap();
                    let out = rt.block_on(async {
                        let client = repe::AsyncClient::connect(addr).await.map_err(|e| e.to_string())?;
                        let c1 = client.clone();
                        let h = tokio::spawn(async move { c1.call_json("/in-flight", &serde_json::json!(1)).await.map(|_| ()).map_err(|e| e.to_string()) });
                        tokio::time::sleep(Duration::from_millis(300)).await;
                        let c2 = client.clone();
                        tokio::spawn(async move { let payload = vec![0x41u8; big]; let _ = c2.notify_with_formats("/big", 1, Some(&payload), 0).await; });
                        tokio::time::sleep(Duration::from_millis(700)).await;
                        go_tx.send(()).ok();
                        let t0 = Instant::now();
                        match tokio::time::timeout(watchdog, h).await {
                            Ok(Ok(Err(e))) => Ok(format!("in-flight call failed after {:?}: {e}", t0.elapsed())),
                            Ok(Ok(Ok(()))) => Err("in-flight call returned Ok although its connection delivered a malformed frame".to_string()),
                            Ok(Err(_)) => Err("call task panicked".to_string()),
                            Err(_) => Err(format!("the in-flight call is still blocked {:?} after the malformed frame arrived (another caller's stalled write holds the writer lock that fail_all_pending takes before it fails the waiters)", watchdog)),
                        }
                    });
                    rt.shutdown_background();
                    out
                }
                other => panic!("unknown client {other}"),
            };
            done_tx.send(()).ok();
            let _ = server.join();
            res
        }
        "async_client_cancel_leaves_no_entry" => {
            // C06 scenario (a cancelled call leaves nothing behind, whichever await point it was cancelled at): a large
            // notify is stalled mid-write (the peer is not reading) and holds the writer; a forward with a caller-chosen
            // id queues behind it and is aborted there; the peer then drains. The id must be free again (a leaked
            // pending entry is visible as "request id N is already pending") and the client must keep serving calls.
            use std::io::Write as _;
            use std::time::Duration;
            let big = v.get("notify_bytes").and_then(|x| x.as_u64()).unwrap_or(32 << 20) as usize;
            let listener = std::net::TcpListener::bind("127.0.0.1:0").map_err(|e| e.to_string())?;
            let addr = listener.local_addr().unwrap();
            let (go_tx, go_rx) = std::sync::mpsc::channel::<()>();
            std::thread::spawn(move || {
                let (stream, _) = listener.accept().unwrap();
                let mut reader = std::io::BufReader::new(stream.try_clone().unwrap());
                let mut writer = std::io::BufWriter::new(stream);
                let _ = go_rx.recv_timeout(Duration::from_secs(30));
                while let Ok(req) = repe::read_message(&mut reader) {
                    if req.header.notify != 0 { continue; }
                    let resp = repe::Message::builder().id(req.header.id).query_bytes(req.query.clone()).body_json(&serde_json::json!({"path": req.query_utf8()})).unwrap().build();
                    if repe::write_message(&mut writer, &resp).is_err() || writer.flush().is_err() { break; }
                }
            });
            let rt = tokio::runtime::Builder::new_multi_thread().worker_threads(2).enable_all().build().unwrap();
            let out: Result<String, String> = rt.block_on(async {
                let client = repe::AsyncClient::connect(addr).await.map_err(|e| e.to_string())?;
                let c1 = client.clone();
                let bigt = tokio::spawn(async move { let payload = vec![0u8; big]; c1.notify_with_formats("/big", 1, Some(&payload), 0).await });
                tokio::time::sleep(Duration::from_millis(500)).await;
                if bigt.is_finished() { return Err("setup: the large notify did not stall".into()); }
                let request = repe::Message::builder().id(7).query_str("/fwd").body_json(&serde_json::json!({"n": 1})).unwrap().build();
                let c2 = client.clone();
                let r2 = request.clone();
                let queued = tokio::spawn(async move { c2.forward_message(&r2).await });
                tokio::time::sleep(Duration::from_millis(300)).await;
                if queued.is_finished() { return Err("setup: the forward was expected to queue behind the stalled write".into()); }
                queued.abort();
                let _ = queued.await;
                go_tx.send(()).ok();
                match tokio::time::timeout(Duration::from_secs(20), bigt).await { Ok(Ok(Ok(()))) => {}, other => return Err(format!("setup: the large notify did not complete after the peer drained: {other:?}")) }
                match tokio::time::timeout(Duration::from_secs(10), client.forward_message_with_timeout(&request, Duration::from_secs(5))).await {
                    Err(_) => return Err("a forward after the cancelled one hung".into()),
                    Ok(Err(e)) => return Err(format!("the call cancelled while queued for the writer left its pending entry behind: reusing its id answers `{e}`")),
                    Ok(Ok(None)) => return Err("forward returned no response".into()),
                    Ok(Ok(Some(m))) => if m.header.id != 7 { return Err(format!("response id {} for request 7", m.header.id)); },
                }
                let ok = client.call_json_with_timeout("/ok", &serde_json::json!({}), Duration::from_secs(5)).await.map_err(|e| format!("the client stopped serving calls after a cancelled one: {e}"))?;
                if ok["path"] != "/ok" { return Err(format!("foreign response {ok}")); }
                Ok("cancelled-while-queued call left no entry; id reusable; client healthy".to_string())
            });
            rt.shutdown_background();
            out
        }
        "offreader_cap_sweep" => {
            // Bounded stand-in for C16 (schedule samples, not a proof): one WebSocket connection, cap in 1..=3 and
            // unlimited; 4 x cap concurrent requests to a parking off-reader handler; every release order of the parked
            // handlers (exhaustive for these caps); handlers that return, fail and panic; inline traffic and notifies
            // interleaved with saturation. Checked: running handlers never exceed the cap; a request at the cap is
            // refused at once with ResourceExhausted while the connection keeps answering inline requests; a notify at
            // the cap runs no handler; every exit frees its slot; a panic is an InternalError for its own caller only.
            use repe::{Router, WebSocketClient, WebSocketServer, RepeError, ErrorCode};
            use serde_json::json;
            use std::collections::HashMap;
            use std::sync::{Arc, Condvar, Mutex};
            use std::sync::atomic::{AtomicUsize, Ordering};
            use std::time::Duration;
            struct Gate { released: Mutex<HashMap<u64, bool>>, cv: Condvar }
            let rt = tokio::runtime::Builder::new_multi_thread().worker_threads(4).max_blocking_threads(64).enable_all().build().unwrap();
            let mut cases = 0usize;
            // a blocking route dispatches off the reader whether middleware was registered before or after it
            {
                use repe::{Execution, Message, Next};
                let mw = |req: &Message, next: Next<'_>| -> Result<Message, RepeError> { next.run(req) };
                let before = Router::new().with_middleware(mw).with_json_blocking("/b", |v| Ok(v)).with_json("/i", |v| Ok(v));
                let after = Router::new().with_json_blocking("/b", |v| Ok(v)).with_json("/i", |v| Ok(v)).with_middleware(mw);
                let both = Router::new().with_middleware(mw).with_json_blocking("/b", |v| Ok(v)).with_json("/i", |v| Ok(v)).with_middleware(mw);
                let plain = Router::new().with_json_blocking("/b", |v| Ok(v)).with_json("/i", |v| Ok(v));
                for (name, r) in [("middleware registered before the route", &before), ("middleware registered after the route", &after), ("middleware before and after", &both), ("no middleware", &plain)] {
                    let b = r.get("/b").ok_or("route missing")?.execution();
                    let i = r.get("/i").ok_or("route missing")?.execution();
                    if b != Execution::OffReader { return Err(format!("{name}: a with_json_blocking route reports execution {b:?}; it must stay OffReader")); }
                    if i != Execution::Inline { return Err(format!("{name}: a with_json route reports execution {i:?}; it must stay Inline")); }
                    cases += 1;
                }
            }
            // the value-stream `next` handler parks on its producer, so it declares itself OffReader, with or without middleware around it
            {
                use repe::value_stream::{RouterValueStreamExt, StreamOpts, ROUTE_NEXT, ROUTE_OPEN};
                use repe::{Execution, Message, Next};
                let mw = |req: &Message, next: Next<'_>| -> Result<Message, RepeError> { next.run(req) };
                let mk = || Router::new().with_writer_stream(repe::BodyFormat::RawBinary, |_r: &str| Some(|w: &mut dyn std::io::Write| -> std::io::Result<()> { w.write_all(b"x") }), StreamOpts::default());
                for (name, r) in [("no middleware", mk()), ("middleware registered afterwards", mk().with_middleware(mw))] {
                    let e = r.get(ROUTE_NEXT).ok_or("svs next route missing")?.execution();
                    if e != Execution::OffReader { return Err(format!("{name}: the value-stream next handler reports execution {e:?}; a pull that waits for its producer must not run on the reader")); }
                    let _ = r.get(ROUTE_OPEN).ok_or("svs open route missing")?;
                    cases += 1;
                }
            }
            // with the cap removed (limit 0) blocking handlers still run off the reader: five park at once and an inline request is answered
            {
                let running = Arc::new(AtomicUsize::new(0));
                let gate = Arc::new(Gate { released: Mutex::new(HashMap::new()), cv: Condvar::new() });
                let (r2, g2) = (running.clone(), gate.clone());
                let router = Router::new()
                    .with_json_blocking("/hold", move |v| {
                        let key = v["key"].as_u64().unwrap_or(0);
                        r2.fetch_add(1, Ordering::SeqCst);
                        let mut rel = g2.released.lock().unwrap();
                        while !rel.get(&key).copied().unwrap_or(false) { rel = g2.cv.wait(rel).unwrap(); }
                        Ok(json!({"key": key}))
                    })
                    .with_json("/ping", |_| Ok(json!("pong")));
                let res: Result<(), String> = rt.block_on(async {
                    let listener = tokio::net::TcpListener::bind(("127.0.0.1", 0)).await.map_err(|e| e.to_string())?;
                    let addr = listener.local_addr().unwrap();
                    let shared = WebSocketServer::new(router).with_offreader_limit(0).into_shared();
                    let server_task = tokio::spawn(async move { loop { let Ok((stream, _)) = listener.accept().await else { break }; let shared = shared.clone(); tokio::spawn(async move { if let Ok(ws) = WebSocketServer::accept(stream, "/repe").await { let _ = shared.serve_connection(ws).await; } }); } });
                    let client = WebSocketClient::connect(&format!("ws://{addr}/repe")).await.map_err(|e| e.to_string())?;
                    let mut hs = Vec::new();
                    for k in 0..5u64 { let c = client.clone(); hs.push(tokio::spawn(async move { c.call_json("/hold", &json!({"key": k})).await })); }
                    let t0 = std::time::Instant::now();
                    while running.load(Ordering::SeqCst) < 5 {
                        if t0.elapsed() > Duration::from_secs(3) {
                            for k in 0..5u64 { gate.released.lock().unwrap().insert(k, true); } gate.cv.notify_all();
                            return Err(format!("unlimited cap: only {} of 5 concurrent blocking handlers are running after 3 s: they run on the reader, one at a time", running.load(Ordering::SeqCst)));
                        }
                        tokio::time::sleep(Duration::from_millis(5)).await;
                    }
                    let pong = tokio::time::timeout(Duration::from_secs(3), client.call_json("/ping", &json!({}))).await;
                    for k in 0..5u64 { gate.released.lock().unwrap().insert(k, true); } gate.cv.notify_all();
                    match pong { Ok(Ok(v)) if v == json!("pong") => {}, other => return Err(format!("unlimited cap: an inline /ping behind five parked blocking handlers got {other:?}: the reader is blocked")) }
                    for h in hs { let _ = tokio::time::timeout(Duration::from_secs(5), h).await; }
                    drop(client); server_task.abort();
                    Ok(())
                });
                res?;
                cases += 1;
            }
            // configuration corners of the cap: what the builder was given is what the connection enforces
            //   default                         -> 16          (20 requests: 16 run, 4 refused)
            //   unlimited, outbound capacity 2   -> no cap     (5 requests: all 5 run; the cap is not the outbound queue's size)
            //   cap 2, outbound capacity 2       -> 2          (4 requests: 2 run, 2 refused; a cap >= the outbound capacity is still a cap)
            //   cap 3, outbound capacity 1       -> 3          (5 requests: 3 run, 2 refused)
            type Build = fn(WebSocketServer) -> WebSocketServer;
            let corners: [(&str, Build, u64, usize, usize); 5] = [
                ("default configuration (documented default cap 16)", |s| s, 20, 16, 4),
                ("with_offreader_limit(0) (unlimited) and with_outbound_capacity(2)", |s| s.with_offreader_limit(0).with_outbound_capacity(2), 5, 5, 0),
                ("with_offreader_limit(0) (unlimited), 20 concurrent requests", |s| s.with_offreader_limit(0), 20, 20, 0),
                ("with_offreader_limit(2) and with_outbound_capacity(2)", |s| s.with_offreader_limit(2).with_outbound_capacity(2), 4, 2, 2),
                ("with_outbound_capacity(1) then with_offreader_limit(3)", |s| s.with_outbound_capacity(1).with_offreader_limit(3), 5, 3, 2),
            ];
            for (cname, build, nreq, want_run, want_rej) in corners {
                let running = Arc::new(AtomicUsize::new(0));
                let gate = Arc::new(Gate { released: Mutex::new(HashMap::new()), cv: Condvar::new() });
                let (r2, g2) = (running.clone(), gate.clone());
                let router = Router::new()
                    .with_json_blocking("/hold", move |v| {
                        let key = v["key"].as_u64().unwrap_or(0);
                        r2.fetch_add(1, Ordering::SeqCst);
                        let mut rel = g2.released.lock().unwrap();
                        while !rel.get(&key).copied().unwrap_or(false) { rel = g2.cv.wait(rel).unwrap(); }
                        Ok(json!({"key": key}))
                    })
                    .with_json("/ping", |_| Ok(json!("pong")));
                let res: Result<(), String> = rt.block_on(async {
                    let listener = tokio::net::TcpListener::bind(("127.0.0.1", 0)).await.map_err(|e| e.to_string())?;
                    let addr = listener.local_addr().unwrap();
                    let shared = build(WebSocketServer::new(router)).into_shared();
                    let server_task = tokio::spawn(async move { loop { let Ok((stream, _)) = listener.accept().await else { break }; let shared = shared.clone(); tokio::spawn(async move { if let Ok(ws) = WebSocketServer::accept(stream, "/repe").await { let _ = shared.serve_connection(ws).await; } }); } });
                    let client = WebSocketClient::connect(&format!("ws://{addr}/repe")).await.map_err(|e| e.to_string())?;
                    let refused = Arc::new(AtomicUsize::new(0));
                    let mut hs = Vec::new();
                    for k in 0..nreq {
                        let c = client.clone();
                        let rf = refused.clone();
                        hs.push(tokio::spawn(async move {
                            let r = c.call_json("/hold", &json!({"key": k})).await;
                            if let Err(RepeError::ServerError { code, .. }) = &r { if *code == ErrorCode::ResourceExhausted { rf.fetch_add(1, Ordering::SeqCst); } }
                            r
                        }));
                    }
                    let t0 = std::time::Instant::now();
                    while running.load(Ordering::SeqCst) + refused.load(Ordering::SeqCst) < nreq as usize && t0.elapsed() < Duration::from_secs(10) {
                        tokio::time::sleep(Duration::from_millis(5)).await;
                    }
                    tokio::time::sleep(Duration::from_millis(100)).await;
                    let (ran, rej) = (running.load(Ordering::SeqCst), refused.load(Ordering::SeqCst));
                    for k in 0..nreq { gate.released.lock().unwrap().insert(k, true); } gate.cv.notify_all();
                    for h in hs { let _ = tokio::time::timeout(Duration::from_secs(5), h).await; }
                    drop(client); server_task.abort();
                    if want_rej > 0 && ran > want_run { return Err(format!("{cname}: {ran} off-reader handlers ran at once; the configured cap is {want_run}")); }
                    if ran + rej == nreq as usize && (ran, rej) != (want_run, want_rej) { return Err(format!("{cname}: of {nreq} concurrent blocking requests {ran} ran and {rej} were refused with ResourceExhausted; expected {want_run} and {want_rej}")); }
                    Ok(())
                });
                res?;
                cases += 1;
            }
            // parked handler threads may outlive a failing scenario: the runtime is shut down in the background at the end
            let outcome: Result<(), String> = (|| {
            fn perms(n: usize) -> Vec<Vec<usize>> {
                fn go(cur: &mut Vec<usize>, rest: &mut Vec<usize>, out: &mut Vec<Vec<usize>>) {
                    if rest.is_empty() { out.push(cur.clone()); return; }
                    for i in 0..rest.len() { let x = rest.remove(i); cur.push(x); go(cur, rest, out); cur.pop(); rest.insert(i, x); }
                }
                let mut out = Vec::new(); go(&mut Vec::new(), &mut (0..n).collect(), &mut out); out
            }
            for cap in [1usize, 2, 3] {
                for order in perms(cap) {
                    for shift in 0..3u64 {
                        cases += 1;
                        let running = Arc::new(AtomicUsize::new(0));
                        let max_running = Arc::new(AtomicUsize::new(0));
                        let invoked = Arc::new(AtomicUsize::new(0));
                        let gate = Arc::new(Gate { released: Mutex::new(HashMap::new()), cv: Condvar::new() });
                        let (r2, m2, i2, g2) = (running.clone(), max_running.clone(), invoked.clone(), gate.clone());
                        let router = Router::new()
                            .with_json_blocking("/hold", move |v| {
                                let key = v["key"].as_u64().unwrap_or(0);
                                let mode = v["mode"].as_u64().unwrap_or(0);
                                i2.fetch_add(1, Ordering::SeqCst);
                                let now = r2.fetch_add(1, Ordering::SeqCst) + 1;
                                m2.fetch_max(now, Ordering::SeqCst);
                                struct Dec(Arc<AtomicUsize>);
                                impl Drop for Dec { fn drop(&mut self) { self.0.fetch_sub(1, Ordering::SeqCst); } }
                                let _dec = Dec(r2.clone());
                                {
                                    let mut rel = g2.released.lock().unwrap();
                                    while !rel.get(&key).copied().unwrap_or(false) { rel = g2.cv.wait(rel).unwrap(); }
                                }
                                match mode { 0 => Ok(json!({"key": key})), 1 => Err((ErrorCode::ApplicationErrorBase, format!("failed {key}"))), _ => panic!("handler {key} panics (scripted)") }
                            })
                            .with_json("/ping", |_| Ok(json!("pong")));
                        let res: Result<(), String> = rt.block_on(async {
                            let listener = tokio::net::TcpListener::bind(("127.0.0.1", 0)).await.map_err(|e| e.to_string())?;
                            let addr = listener.local_addr().unwrap();
                            let shared = WebSocketServer::new(router).with_offreader_limit(cap).into_shared();
                            let server_task = tokio::spawn(async move {
                                loop {
                                    let Ok((stream, _)) = listener.accept().await else { break };
                                    let shared = shared.clone();
                                    tokio::spawn(async move { if let Ok(ws) = WebSocketServer::accept(stream, "/repe").await { let _ = shared.serve_connection(ws).await; } });
                                }
                            });
                            let client = WebSocketClient::connect(&format!("ws://{addr}/repe")).await.map_err(|e| e.to_string())?;
                            // fill the cap with parked handlers (modes rotate: return / fail / panic)
                            let mut held = Vec::new();
                            for k in 0..cap as u64 {
                                let c = client.clone();
                                let mode = (k + shift) % 3;
                                held.push((k, mode, tokio::spawn(async move { c.call_json("/hold", &json!({"key": k, "mode": mode})).await })));
                            }
                            let t0 = std::time::Instant::now();
                            while running.load(Ordering::SeqCst) < cap { if t0.elapsed() > Duration::from_secs(5) { return Err(format!("cap {cap}: only {} of {cap} handlers started", running.load(Ordering::SeqCst))); } tokio::time::sleep(Duration::from_millis(5)).await; }
                            // 3 x cap more requests arrive at the cap: each refused at once, retryable, and the reader keeps working
                            let before = invoked.load(Ordering::SeqCst);
                            for extra in 0..(3 * cap) as u64 {
                                match tokio::time::timeout(Duration::from_secs(3), client.call_json("/hold", &json!({"key": 100 + extra, "mode": 0}))).await {
                                    Err(_) => return Err(format!("cap {cap}: a request arriving at the cap was neither refused nor answered within 3 s (the reader is blocked or the request was queued)")),
                                    Ok(Err(RepeError::ServerError { code, .. })) if code == ErrorCode::ResourceExhausted => {}
                                    Ok(other) => return Err(format!("cap {cap}: a request arriving at the cap was answered {other:?}; expected the retryable ResourceExhausted error")),
                                }
                                let pong = tokio::time::timeout(Duration::from_secs(3), client.call_json("/ping", &json!({}))).await.map_err(|_| format!("cap {cap}: inline /ping hung while the cap was saturated"))?.map_err(|e| format!("cap {cap}: inline /ping failed during saturation: {e}"))?;
                                if pong != json!("pong") { return Err(format!("foreign answer to /ping: {pong}")); }
                            }
                            client.notify_json("/hold", &json!({"key": 999, "mode": 0})).await.map_err(|e| e.to_string())?;
                            let _ = client.call_json("/ping", &json!({})).await;   // ordering barrier: the notify was read before this ping
                            if invoked.load(Ordering::SeqCst) != before { return Err(format!("cap {cap}: {} handler invocation(s) happened for requests/notifies that arrived at the cap", invoked.load(Ordering::SeqCst) - before)); }
                            // release the parked handlers in this order; each exit must free its slot
                            let mut held: Vec<Option<(u64, u64, tokio::task::JoinHandle<Result<serde_json::Value, RepeError>>)>> = held.into_iter().map(Some).collect();
                            for &idx in &order {
                                let (k, mode, h) = held[idx].take().unwrap();
                                { gate.released.lock().unwrap().insert(k, true); gate.cv.notify_all(); }
                                let out = tokio::time::timeout(Duration::from_secs(5), h).await.map_err(|_| format!("cap {cap}: released handler {k} never answered"))?.map_err(|e| e.to_string())?;
                                match (mode, &out) {
                                    (0, Ok(v)) if v["key"] == json!(k) => {}
                                    (1, Err(RepeError::ServerError { code, .. })) if *code == ErrorCode::ApplicationErrorBase => {}
                                    (2, Err(RepeError::ServerError { code, .. })) if *code == ErrorCode::InternalError => {}
                                    _ => return Err(format!("cap {cap}: handler {k} (mode {mode}: 0 returns, 1 fails, 2 panics) was answered {out:?}")),
                                }
                                // the freed slot admits a new request, which runs to completion
                                let t1 = std::time::Instant::now();
                                loop {
                                    gate.released.lock().unwrap().insert(500 + k, true);
                                    match tokio::time::timeout(Duration::from_secs(5), client.call_json("/hold", &json!({"key": 500 + k, "mode": 0}))).await {
                                        Ok(Ok(v)) if v["key"] == json!(500 + k) => break,
                                        Ok(Err(RepeError::ServerError { code, .. })) if code == ErrorCode::ResourceExhausted && t1.elapsed() < Duration::from_secs(2) => { tokio::time::sleep(Duration::from_millis(10)).await; }
                                        other => return Err(format!("cap {cap}: after handler {k} (mode {mode}) exited its slot was not freed: a new request got {other:?}")),
                                    }
                                }
                                let pong = client.call_json("/ping", &json!({})).await.map_err(|e| format!("cap {cap}: the connection died after handler {k} (mode {mode}) exited: {e}"))?;
                                if pong != json!("pong") { return Err(format!("foreign answer to /ping: {pong}")); }
                            }
                            // the cap is unchanged by whatever happened so far (returns, failures, panics): fill it again, one more is refused
                            let mut again = Vec::new();
                            for k in 0..cap as u64 {
                                let c = client.clone();
                                again.push((700 + k, tokio::spawn(async move { c.call_json("/hold", &json!({"key": 700 + k, "mode": 0})).await })));
                            }
                            let t2 = std::time::Instant::now();
                            while running.load(Ordering::SeqCst) < cap { if t2.elapsed() > Duration::from_secs(5) { return Err(format!("cap {cap}: after the first round only {} of {cap} handlers could start again", running.load(Ordering::SeqCst))); } tokio::time::sleep(Duration::from_millis(5)).await; }
                            match tokio::time::timeout(Duration::from_secs(3), client.call_json("/hold", &json!({"key": 800, "mode": 0}))).await {
                                Ok(Err(RepeError::ServerError { code, .. })) if code == ErrorCode::ResourceExhausted => {}
                                other => return Err(format!("cap {cap}: after earlier handlers returned, failed and panicked, request number cap+1 was not refused ({other:?}): the cap is no longer {cap}")),
                            }
                            for (k, h) in again { gate.released.lock().unwrap().insert(k, true); gate.cv.notify_all(); let _ = tokio::time::timeout(Duration::from_secs(5), h).await; }
                            if max_running.load(Ordering::SeqCst) > cap { return Err(format!("cap {cap}: {} off-reader handlers ran at the same time", max_running.load(Ordering::SeqCst))); }
                            drop(client);
                            server_task.abort();
                            Ok(())
                        });
                        res.map_err(|e| format!("release order {order:?}, mode shift {shift}: {e}"))?;
                    }
                }
            }
            Ok(())
            })();
            rt.shutdown_background();
            outcome?;
            Ok(format!("{cases} saturation scenarios held (caps 1..3, every release order, return/fail/panic mixes)"))
        }
        "client_batch_alignment" => {
            // Bounded stand-in for C04's batch clause: batch_json / batch_json on the async client return, at position i,
            // the answer to request i, for batch sizes below, at and above the worker cap, against a server that answers
            // in reversed pairs (so arrival order never matches request order).
            use std::io::Write as _;
            let sizes: Vec<usize> = v.get("sizes").and_then(|x| x.as_array()).map(|a| a.iter().map(|x| x.as_u64().unwrap() as usize).collect()).unwrap_or(vec![1, 2, 3, 63, 64, 65, 67, 101, 257]);
            let listener = std::net::TcpListener::bind("127.0.0.1:0").map_err(|e| e.to_string())?;
            let addr = listener.local_addr().unwrap();
            std::thread::spawn(move || {
                for conn in listener.incoming() {
                    let Ok(stream) = conn else { break };
                    std::thread::spawn(move || {
                        let mut reader = std::io::BufReader::new(stream.try_clone().unwrap());
                        let mut writer = std::io::BufWriter::new(stream);
                        let mut held: Option<repe::Message> = None;
                        let _ = reader.get_ref().set_read_timeout(Some(std::time::Duration::from_millis(50)));
                        loop {
                            match repe::read_message(&mut reader) {
                                Ok(req) => {
                                    if req.header.notify != 0 { continue; }
                                    let resp = repe::Message::builder().id(req.header.id).query_bytes(req.query.clone()).body_json(&serde_json::json!({"path": req.query_utf8()})).unwrap().build();
                                    match held.take() {
                                        None => held = Some(resp),
                                        Some(first) => { let _ = repe::write_message(&mut writer, &resp); let _ = repe::write_message(&mut writer, &first); let _ = writer.flush(); }
                                    }
                                }
                                Err(repe::RepeError::Io(e)) if matches!(e.kind(), std::io::ErrorKind::WouldBlock | std::io::ErrorKind::TimedOut) => {
                                    // nothing more is coming for now: release a response held back for pairing
                                    if let Some(first) = held.take() { let _ = repe::write_message(&mut writer, &first); let _ = writer.flush(); }
                                }
                                Err(_) => break,
                            }
                        }
                    });
                }
            });
            let rt = tokio::runtime::Builder::new_multi_thread().worker_threads(2).enable_all().build().unwrap();
            let mut cases = 0;
            for &n in &sizes {
                let requests: Vec<(String, serde_json::Value)> = (0..n).map(|i| (format!("/r/{i}"), serde_json::json!({"i": i}))).collect();
                let client = repe::Client::connect(addr).map_err(|e| e.to_string())?;
                let out = client.batch_json_with_timeout(requests.clone(), std::time::Duration::from_secs(20));
                if out.len() != n { return Err(format!("blocking batch of {n} returned {} results", out.len())); }
                for (i, r) in out.iter().enumerate() {
                    match r { Ok(v) if v["path"] == serde_json::json!(format!("/r/{i}")) => {}, other => return Err(format!("blocking batch of {n}: slot {i} holds {other:?}; it must hold the answer to request {i} (/r/{i})")) }
                }
                let aout = rt.block_on(async { let c = repe::AsyncClient::connect(addr).await.map_err(|e| e.to_string())?; Ok::<_, String>(c.batch_json_with_timeout(requests.clone(), std::time::Duration::from_secs(20)).await) })?;
                if aout.len() != n { return Err(format!("async batch of {n} returned {} results", aout.len())); }
                for (i, r) in aout.iter().enumerate() {
                    match r { Ok(v) if v["path"] == serde_json::json!(format!("/r/{i}")) => {}, other => return Err(format!("async batch of {n}: slot {i} holds {other:?}; it must hold the answer to request {i} (/r/{i})")) }
                }
                cases += 2;
            }
            rt.shutdown_background();
            Ok(format!("{cases} batches aligned (sizes {sizes:?}, blocking and async)"))
        }
        "fleet_refused_then_up" => {
            // Stand-in for C19 (real reconnect): the node is not listening when the call starts (connection refused) and
            // comes up 100 ms later; with max_attempts 6 and 300 ms between attempts the call must succeed, and the
            // refusal must be what a single-attempt call reports.
            use std::time::Duration;
            let use_async = v.get("async").and_then(|x| x.as_bool()).unwrap_or(false);
            let probe = std::net::TcpListener::bind("127.0.0.1:0").map_err(|e| e.to_string())?;
            let port = probe.local_addr().unwrap().port();
            drop(probe);
            let cfg = || repe::NodeConfig::new("127.0.0.1", port).unwrap().with_name("n").unwrap().with_timeout(Duration::from_millis(800)).unwrap();
            let rt = tokio::runtime::Builder::new_multi_thread().worker_threads(2).enable_all().build().unwrap();
            // (1) nobody listens, one attempt: the error is the refusal itself
            let once = repe::FleetOptions { retry_policy: repe::RetryPolicy { max_attempts: 1, delay: Duration::from_millis(10) }, ..Default::default() };
            let first = if use_async { let f = repe::AsyncFleet::with_options(vec![cfg()], once).map_err(|e| e.to_string())?; rt.block_on(f.call_json("n", "/ping", Some(&serde_json::json!(1)))).map_err(|e| e.to_string())?.into_result() }
                        else { let f = repe::Fleet::with_options(vec![cfg()], once).map_err(|e| e.to_string())?; f.call_json("n", "/ping", Some(&serde_json::json!(1))).map_err(|e| e.to_string())?.into_result() };
            match &first {
                Err(repe::RepeError::Io(e)) if e.kind() == std::io::ErrorKind::ConnectionRefused => {}
                other => { if other.is_ok() { return Ok("setup: another process took the probe port; scenario skipped".into()); } return Err(format!("a call to a node that is not listening reported {other:?}; expected the connection-refused I/O error (a retryable transport failure)")); }
            }
            // (2) the node comes up while the retry loop is running
            let up = std::thread::spawn(move || {
                std::thread::sleep(Duration::from_millis(100));
                let Ok(listener) = std::net::TcpListener::bind(("127.0.0.1", port)) else { return false };
                std::thread::spawn(move || {
                    for conn in listener.incoming() {
                        let Ok(mut s) = conn else { break };
                        std::thread::spawn(move || { while let Ok(req) = repe::read_message(&mut s) { let m = repe::Message::builder().id(req.header.id).body_json(&serde_json::json!("pong")).unwrap().build(); if repe::write_message(&mut s, &m).is_err() { break; } } });
                    }
                });
                true
            });
            let opts = repe::FleetOptions { retry_policy: repe::RetryPolicy { max_attempts: 6, delay: Duration::from_millis(300) }, ..Default::default() };
            let r = if use_async { let f = repe::AsyncFleet::with_options(vec![cfg()], opts).map_err(|e| e.to_string())?; rt.block_on(f.call_json("n", "/ping", Some(&serde_json::json!(1)))).map_err(|e| e.to_string())?.into_result() }
                    else { let f = repe::Fleet::with_options(vec![cfg()], opts).map_err(|e| e.to_string())?; f.call_json("n", "/ping", Some(&serde_json::json!(1))).map_err(|e| e.to_string())?.into_result() };
            if !up.join().unwrap_or(false) { return Ok("setup: could not re-bind the probe port; scenario skipped".into()); }
            rt.shutdown_background();
            match r { Ok(_) => Ok("refused, then up: the retry loop reached the node".into()), Err(e) => Err(format!("the node came up 100 ms into a retry window of 6 attempts x 300 ms, yet the call failed with `{e}`: a refused connection was not retried")) }
        }
        "ws_outbound_limit_sweep" => {
            // Bounded stand-in for C17 on real sockets: (a) a WebSocketClient with assumed_peer_frame_limit = L sends a
            // request/notify iff its framed size (48 + query + body) is <= L, fails locally with MessageTooLarge
            // otherwise, and stays usable; (b) a WebSocketServer with the same assumption answers a request whose
            // response would exceed L with an error response carrying the same id that itself fits L; a raw peer records
            // the size of every binary message on the wire.
            use repe::tokio_tungstenite::tungstenite::Message as WsMessage;
            use futures_util::{SinkExt, StreamExt};
            use std::time::Duration;
            let rt = tokio::runtime::Builder::new_multi_thread().worker_threads(2).enable_all().build().unwrap();
            let out: Result<String, String> = rt.block_on(async {
                let mut cases = 0usize;
                for limit in [1024usize, 4096, 65536] {
                    // ---- (a) client side ----
                    let listener = tokio::net::TcpListener::bind("127.0.0.1:0").await.map_err(|e| e.to_string())?;
                    let addr = listener.local_addr().unwrap();
                    let (seen_tx, mut seen_rx) = tokio::sync::mpsc::unbounded_channel::<usize>();
                    tokio::spawn(async move {
                        let Ok((stream, _)) = listener.accept().await else { return };
                        let Ok(mut ws) = repe::tokio_tungstenite::accept_async(stream).await else { return };
                        while let Some(Ok(frame)) = ws.next().await { if let WsMessage::Binary(b) = frame { let _ = seen_tx.send(b.len()); } }
                    });
                    let client = repe::WebSocketClient::connect_with_limits(&format!("ws://{addr}/repe"), repe::WebSocketLimits::default().with_assumed_peer_frame_limit(Some(limit))).await.map_err(|e| e.to_string())?;
                    let path = "/sink";
                    let mut expect = Vec::new();
                    for total in [limit - 2, limit - 1, limit, limit + 1, limit + 2, limit + 47, limit + 48, limit + 48 + path.len(), limit + 49 + path.len(), 2 * limit] {
                        cases += 1;
                        let body = vec![0xabu8; total - 48 - path.len()];
                        let r = client.notify_with_formats(path, 1, Some(&body), 0).await;
                        if total <= limit { r.map_err(|e| format!("limit {limit}: a {total}-byte notify was refused: {e}"))?; expect.push(total); }
                        else { match r { Err(repe::RepeError::MessageTooLarge { size, limit: l }) if size == total && l == limit => {}, other => return Err(format!("limit {limit}: a notify of {total} framed bytes must fail locally with MessageTooLarge {{ size: {total}, limit: {limit} }}; got {other:?}")) } }
                    }
                    client.notify_with_formats(path, 1, Some(b"tail"), 0).await.map_err(|e| format!("limit {limit}: the connection was not usable after local refusals: {e}"))?;
                    let tail = 48 + path.len() + 4;
                    expect.push(tail);
                    let mut wire = Vec::new();
                    loop {
                        let s = tokio::time::timeout(Duration::from_secs(10), seen_rx.recv()).await.map_err(|_| format!("limit {limit}: the peer never saw the trailing notify"))?.ok_or("peer task died")?;
                        wire.push(s);
                        if s == tail { break; }
                    }
                    if wire != expect { return Err(format!("limit {limit}: the peer saw binary messages of sizes {wire:?}; expected exactly {expect:?} (nothing over the limit may reach the wire)")); }
                    // ---- (b) server side ----
                    let router = repe::Router::new().with_json("/blob", |v| { let n = v["n"].as_u64().unwrap_or(0) as usize; Ok(serde_json::json!("x".repeat(n))) });
                    let listener = tokio::net::TcpListener::bind("127.0.0.1:0").await.map_err(|e| e.to_string())?;
                    let addr = listener.local_addr().unwrap();
                    let shared = repe::WebSocketServer::new(router).with_limits(repe::WebSocketLimits::default().with_assumed_peer_frame_limit(Some(limit))).into_shared();
                    let srv = tokio::spawn(async move { loop { let Ok((stream, _)) = listener.accept().await else { break }; let shared = shared.clone(); tokio::spawn(async move { if let Ok(ws) = repe::WebSocketServer::accept(stream, "/repe").await { let _ = shared.serve_connection(ws).await; } }); } });
                    let (mut ws, _) = repe::tokio_tungstenite::connect_async(format!("ws://{addr}/repe")).await.map_err(|e| e.to_string())?;
                    // response framed size = 48 + len("/blob") + (n + 2 quotes)
                    for (id, total) in [limit - 1, limit, limit + 1, limit + 200, 3 * limit].into_iter().enumerate() {
                        cases += 1;
                        let n = total - 48 - 5 - 2;
                        let req = repe::Message::builder().id(id as u64 + 1).query_str("/blob").query_format(repe::QueryFormat::JsonPointer).body_json(&serde_json::json!({"n": n})).unwrap().build();
                        ws.send(WsMessage::Binary(req.to_vec().into())).await.map_err(|e| e.to_string())?;
                        let frame = tokio::time::timeout(Duration::from_secs(10), ws.next()).await.map_err(|_| format!("limit {limit}: no answer to request {}", id + 1))?.ok_or("closed")?.map_err(|e| e.to_string())?;
                        let WsMessage::Binary(bytes) = frame else { return Err("non-binary answer".into()) };
                        let m = repe::Message::from_slice_exact(&bytes).map_err(|e| format!("limit {limit}: unparsable answer: {e}"))?;
                        if bytes.len() > limit { return Err(format!("limit {limit}: the server sent a {}-byte message for a response of {total} framed bytes", bytes.len())); }
                        if m.header.id != id as u64 + 1 { return Err(format!("limit {limit}: answer id {} for request {}", m.header.id, id + 1)); }
                        if total <= limit { if m.header.ec != 0 || bytes.len() != total { return Err(format!("limit {limit}: a response of {total} framed bytes (within the limit) was not delivered unchanged: ec={} size={}", m.header.ec, bytes.len())); } }
                        else if m.header.ec == 0 { return Err(format!("limit {limit}: a response of {total} framed bytes was answered with ec=0 and {} bytes", bytes.len())); }
                    }
                    srv.abort();
                }
                Ok(format!("{cases} outbound-limit cases held (limits 1024, 4096, 65536; client and server side)"))
            });
            rt.shutdown_background();
            out
        }
        "aligned_client_frames" => {
            // Bounded stand-in for C08's aligned-client clause: the frame the blocking and the async client put on the
            // wire for call_typed_slice_aligned(path, data) carries the same query and body as
            // Message::builder().query_str(path).body_aligned_typed_slice(data) -- i.e. the padding is computed for the
            // payload's real offset 48 + |query| -- for path lengths 1..17 and several element types; and placed at a
            // 16-aligned base the payload can be borrowed.
            use std::io::Write as _;
            fn check<T: beve::BeveTypedSlice + Clone + PartialEq + std::fmt::Debug + Send + Sync + 'static>(name: &str, data: Vec<T>) -> Result<usize, String> {
                let listener = std::net::TcpListener::bind("127.0.0.1:0").map_err(|e| e.to_string())?;
                let addr = listener.local_addr().unwrap();
                let (tx, rx) = std::sync::mpsc::channel::<repe::Message>();
                std::thread::spawn(move || {
                    for conn in listener.incoming() {
                        let Ok(stream) = conn else { break };
                        let tx = tx.clone();
                        std::thread::spawn(move || {
                            let mut reader = std::io::BufReader::new(stream.try_clone().unwrap());
                            let mut writer = std::io::BufWriter::new(stream);
                            while let Ok(req) = repe::read_message(&mut reader) {
                                let resp = repe::Message::builder().id(req.header.id).body_typed_slice::<u8>(&[]).build();
                                let _ = tx.send(req);
                                if repe::write_message(&mut writer, &resp).is_err() || writer.flush().is_err() { break; }
                            }
                        });
                    }
                });
                let rt = tokio::runtime::Builder::new_current_thread().enable_all().build().unwrap();
                let client = repe::Client::connect(addr).map_err(|e| e.to_string())?;
                let aclient = rt.block_on(repe::AsyncClient::connect(addr)).map_err(|e| e.to_string())?;
                let mut n = 0;
                for plen in 1..=17usize {
                    let path = format!("/{}", "p".repeat(plen - 1));
                    let want = repe::Message::builder().query_str(&path).body_aligned_typed_slice(&data).build();
                    for which in ["blocking", "async", "blocking with_timeout", "async with_timeout"] {
                        let t = std::time::Duration::from_secs(30);
                        let _: Vec<u8> = match which {
                            "blocking" => client.call_typed_slice_aligned(&path, &data).map_err(|e| e.to_string())?,
                            "async" => rt.block_on(aclient.call_typed_slice_aligned(&path, &data)).map_err(|e| e.to_string())?,
                            "blocking with_timeout" => client.call_typed_slice_aligned_with_timeout(&path, &data, t).map_err(|e| e.to_string())?,
                            _ => rt.block_on(aclient.call_typed_slice_aligned_with_timeout(&path, &data, t)).map_err(|e| e.to_string())?,
                        };
                        let sent = rx.recv_timeout(std::time::Duration::from_secs(5)).map_err(|_| "peer saw no request".to_string())?;
                        if sent.query != want.query || sent.body != want.body || sent.header.body_format != want.header.body_format {
                            return Err(format!("{which} client, {name}, path of {plen} bytes: the aligned request body differs from the builder's aligned body for the same query ({} vs {} bytes): the padding was not computed for offset 48 + {plen}", sent.body.len(), want.body.len()));
                        }
                        // at a 16-aligned base the payload must be borrowable
                        let wire = sent.to_vec();
                        let mut backing = vec![0u8; wire.len() + 32];
                        let off = (16 - (backing.as_ptr() as usize % 16)) % 16;
                        backing[off..off + wire.len()].copy_from_slice(&wire);
                        let view = repe::MessageView::from_slice_exact(&backing[off..off + wire.len()]).map_err(|e| e.to_string())?;
                        match beve::read_aligned_typed_slice_ref::<T>(view.body) {
                            Ok(b) if b == &data[..] => {}
                            other => return Err(format!("{which} client, {name}, path of {plen} bytes: with the frame at an aligned address the payload could not be borrowed: {:?}", other.map(|b| b.len()))),
                        }
                        n += 1;
                    }
                }
                Ok(n)
            }
            let mut total = 0;
            total += check::<f64>("f64", vec![1.5, -2.25, f64::MAX])?;
            total += check::<u32>("u32", vec![1, u32::MAX, 7, 9, 11])?;
            total += check::<i16>("i16", vec![-1, 2, i16::MIN])?;
            total += check::<u8>("u8", vec![1, 2, 3])?;
            total += check::<f64>("f64-empty", vec![])?;
            Ok(format!("{total} aligned client frames held"))
        }
        "peer_alias_remove_race" => {
            // C18 scenario (one forced interleaving): alias(peer 1, key) whose key conversion is slow races
            // remove(peer 1). Whatever alias() reports, afterwards nothing may point at the removed peer, also after the
            // same id is registered again.
            use std::sync::Arc;
            use std::sync::mpsc::{channel, Receiver, Sender};
            use std::time::Duration;
            struct S;
            impl repe::PeerSink for S { fn send_notify(&self, _m: &str, _b: repe::NotifyBody) -> Result<(), repe::PeerSendError> { Ok(()) } }
            struct SlowKey { text: &'static str, started: Sender<()>, resume: Receiver<()> }
            impl From<SlowKey> for String { fn from(k: SlowKey) -> String { let _ = k.started.send(()); let _ = k.resume.recv_timeout(Duration::from_secs(10)); k.text.to_string() } }
            let peer = |id: u64| repe::PeerHandle::new(repe::PeerId(id), Arc::new(S));
            let reg = repe::PeerRegistry::new();
            reg.insert(peer(1));
            reg.insert(peer(2));
            if !reg.alias(repe::PeerId(2), "other") { return Err("alias on a present peer refused".into()); }
            let (stx, srx) = channel();
            let (rtx, rrx) = channel();
            let r2 = reg.clone();
            let h = std::thread::spawn(move || r2.alias(repe::PeerId(1), SlowKey { text: "session-1", started: stx, resume: rrx }));
            // with the key converted before the lock is taken this arrives at once; if alias() converts under its lock the
            // remove below simply waits for it -- either way the outcome must be one of the two sequential orders
            let _ = srx.recv_timeout(Duration::from_secs(10));
            let remover = { let r3 = reg.clone(); std::thread::spawn(move || r3.remove(repe::PeerId(1)).is_some()) };
            std::thread::sleep(Duration::from_millis(100));
            let _ = rtx.send(());
            let attached = h.join().map_err(|_| "alias thread panicked")?;
            let removed = remover.join().map_err(|_| "remove thread panicked")?;
            if !removed { return Err("remove() of a present peer returned None".into()); }
            if reg.get(repe::PeerId(1)).is_some() { return Err("peer 1 still present after remove".into()); }
            let left = reg.aliases_for(repe::PeerId(1));
            if !left.is_empty() || reg.key_for(repe::PeerId(1)).is_some() || reg.get_by("session-1").is_some() {
                return Err(format!("alias() racing remove() of the same peer left a dangling alias: alias() returned {attached}, the removed peer still lists {left:?}, get_by(session-1) resolves: {}", reg.get_by("session-1").is_some()));
            }
            reg.insert(peer(1));
            if reg.get_by("session-1").is_some() || !reg.aliases_for(repe::PeerId(1)).is_empty() { return Err("after re-registering the id, a stale key resolves to a peer it was never assigned to".into()); }
            if reg.aliases_for(repe::PeerId(2)) != vec!["other".to_string()] || reg.get_by("other").map(|p| p.peer_id().0) != Some(2) { return Err("an unrelated peer's alias was disturbed".into()); }
            // a lookup is one atomic step: while a key is re-pointed from a peer to a fresh one and the old owner removed, the key always
            // addresses a present peer, so get_by must never answer None (schedule sample: 1 writer, 3 readers, 1.5 s)
            {
                use std::sync::atomic::{AtomicBool, AtomicU64, Ordering};
                let reg = repe::PeerRegistry::new();
                reg.insert(peer(1));
                reg.alias(repe::PeerId(1), "k");
                let stop = Arc::new(AtomicBool::new(false));
                let misses = Arc::new(AtomicU64::new(0));
                let lookups = Arc::new(AtomicU64::new(0));
                let readers: Vec<_> = (0..3).map(|_| { let (r, st, mi, lo) = (reg.clone(), stop.clone(), misses.clone(), lookups.clone()); std::thread::spawn(move || {
                    while !st.load(Ordering::Relaxed) { if r.get_by("k").is_none() { mi.fetch_add(1, Ordering::Relaxed); } lo.fetch_add(1, Ordering::Relaxed); }
                }) }).collect();
                let t0 = std::time::Instant::now();
                let mut cur = 1u64;
                while t0.elapsed() < Duration::from_millis(1500) {
                    let next = cur + 1;
                    reg.insert(peer(next));
                    reg.alias(repe::PeerId(next), "k");
                    reg.remove(repe::PeerId(cur));
                    cur = next;
                }
                stop.store(true, Ordering::Relaxed);
                for r in readers { let _ = r.join(); }
                let (mi, lo) = (misses.load(Ordering::Relaxed), lookups.load(Ordering::Relaxed));
                if mi > 0 { return Err(format!("get_by(k) answered None {mi} times in {lo} lookups while k was re-pointed {} times from a present peer to a present peer: a lookup is not one atomic step", cur - 1)); }
            }
            Ok(format!("alias/remove race resolved as a sequential order (alias returned {attached})"))
        }
        "ws_lifecycle_sweep" => {
            // Bounded stand-in for C15 (one scenario per exit cause; schedule samples, not a proof): for every accepted
            // connection the disconnect callbacks run exactly once, never for a failed handshake; with a registry attached
            // the peer and its alias are present from connect until then and absent afterwards; a notification queued by a
            // connect callback reaches the wire before any response; a parked off-reader handler observes cancellation.
            use repe::tokio_tungstenite::tungstenite::Message as WsMessage;
            use futures_util::{SinkExt, StreamExt};
            use repe::{Router, WebSocketServer, PeerRegistry, PeerId, ShutdownToken};
            use serde_json::json;
            use std::sync::{Arc, Mutex};
            use std::sync::atomic::{AtomicUsize, Ordering};
            use std::time::Duration;
            let rt = tokio::runtime::Builder::new_multi_thread().worker_threads(4).enable_all().build().unwrap();
            let causes = ["inline_ctx_handler_during_cancel", "parked_offreader_then_inline_panic", "clean_close", "abrupt_drop", "text_frame", "malformed_binary", "inline_handler_panic", "connect_callback_panic", "embedder_cancel", "parked_offreader_then_drop", "failed_handshake"];
            let mut done = 0usize;
            let outcome: Result<(), String> = (|| {
                for cause in causes {
                    let connects: Arc<Mutex<Vec<u64>>> = Arc::new(Mutex::new(Vec::new()));
                    let disconnects: Arc<Mutex<Vec<(u64, bool, bool)>>> = Arc::new(Mutex::new(Vec::new()));   // (id, still in registry, alias still resolves)
                    let observed_cancel = Arc::new(AtomicUsize::new(0));
                    let parked = Arc::new(AtomicUsize::new(0));
                    let registry = PeerRegistry::new();
                    let (c2, d2, r2, r3) = (connects.clone(), disconnects.clone(), registry.clone(), registry.clone());
                    let (oc, pk) = (observed_cancel.clone(), parked.clone());
                    let panic_in_connect = cause == "connect_callback_panic";
                    let router = Router::new()
                        .with_json("/ping", |_| Ok(json!("pong")))
                        .with_json("/boom", |_| -> Result<serde_json::Value, (repe::ErrorCode, String)> { panic!("inline handler panics (scripted)") })
                        .with_json_ctx("/spin", { let (oc2, pk2) = (observed_cancel.clone(), parked.clone()); move |ctx, _| {
                            // an INLINE context-aware handler that is still running when the connection is cancelled
                            pk2.fetch_add(1, Ordering::SeqCst);
                            let t0 = std::time::Instant::now();
                            while !ctx.is_cancelled() && t0.elapsed() < Duration::from_secs(3) { std::thread::sleep(Duration::from_millis(5)); }
                            if ctx.is_cancelled() { oc2.fetch_add(1, Ordering::SeqCst); }
                            Ok(json!("left"))
                        } })
                        .with_json_ctx_blocking("/park", move |ctx, _| {
                            pk.fetch_add(1, Ordering::SeqCst);
                            let t0 = std::time::Instant::now();
                            while !ctx.is_cancelled() && t0.elapsed() < Duration::from_secs(8) { std::thread::sleep(Duration::from_millis(5)); }
                            if ctx.is_cancelled() { oc.fetch_add(1, Ordering::SeqCst); }
                            Ok(json!("left"))
                        });
                    let early_seen: Arc<Mutex<Vec<(u64, bool)>>> = Arc::new(Mutex::new(Vec::new()));
                    let (es, r4) = (early_seen.clone(), registry.clone());
                    let server = WebSocketServer::new(router)
                        // a disconnect callback registered BEFORE the registry is attached runs before the registry's own removal: it still finds the peer and its alias
                        .on_peer_disconnect(move |id| { es.lock().unwrap().push((id.0, r4.get(id).is_some() && r4.get_by(format!("session-{}", id.0).as_str()).is_some())); })
                        .with_peer_registry(registry.clone())
                        .on_peer_connect(move |peer| {
                            let id = peer.peer_id().0;
                            // the registry's own connect hook ran before this one: the peer is addressable from here on
                            let present = r2.get(PeerId(id)).is_some() && r2.alias(PeerId(id), format!("session-{id}"));
                            c2.lock().unwrap().push(if present { id } else { u64::MAX });
                            let _ = peer.send_notify("/hello", repe::NotifyBody::Utf8("hi".into()));
                            if panic_in_connect { panic!("connect callback panics (scripted)"); }
                        })
                        .on_peer_disconnect(move |id| {
                            d2.lock().unwrap().push((id.0, r3.get(id).is_some(), r3.get_by(format!("session-{}", id.0).as_str()).is_some()));
                        });
                    let shared = server.into_shared();
                    let token = ShutdownToken::new();
                    let res: Result<(), String> = rt.block_on(async {
                        let listener = tokio::net::TcpListener::bind(("127.0.0.1", 0)).await.map_err(|e| e.to_string())?;
                        let addr = listener.local_addr().unwrap();
                        let (sh, tk) = (shared.clone(), token.clone());
                        let server_task = tokio::spawn(async move {
                            loop {
                                let Ok((stream, _)) = listener.accept().await else { break };
                                let (sh, tk) = (sh.clone(), tk.clone());
                                tokio::spawn(async move { if let Ok(ws) = WebSocketServer::accept(stream, "/repe").await { let _ = sh.serve_connection_with_cancel(ws, &tk).await; } });
                            }
                        });
                        let path = if cause == "failed_handshake" { "/wrong" } else { "/repe" };
                        let conn = repe::tokio_tungstenite::connect_async(format!("ws://{addr}{path}")).await;
                        if cause == "failed_handshake" {
                            if conn.is_ok() { return Err("a handshake on the wrong path was accepted".into()); }
                            tokio::time::sleep(Duration::from_millis(300)).await;
                            if !connects.lock().unwrap().is_empty() || !disconnects.lock().unwrap().is_empty() { return Err(format!("failed handshake: connect hooks ran {} times and disconnect hooks {} times; both must be 0", connects.lock().unwrap().len(), disconnects.lock().unwrap().len())); }
                            server_task.abort();
                            return Ok(());
                        }
                        let (mut ws, _) = conn.map_err(|e| format!("{cause}: connect failed: {e}"))?;
                        let req = |id: u64, p: &str| WsMessage::Binary(repe::Message::builder().id(id).query_str(p).query_format(repe::QueryFormat::JsonPointer).body_json(&json!({})).unwrap().build().to_vec().into());
                        if cause != "connect_callback_panic" {
                            // the hello queued by the connect callback is on the wire before the response to the first request
                            ws.send(req(1, "/ping")).await.map_err(|e| e.to_string())?;
                            let mut kinds = Vec::new();
                            for _ in 0..2 {
                                match tokio::time::timeout(Duration::from_secs(5), ws.next()).await { Ok(Some(Ok(WsMessage::Binary(b)))) => { let m = repe::Message::from_slice_exact(&b).map_err(|e| e.to_string())?; kinds.push(m.header.notify != 0); } other => return Err(format!("{cause}: expected the hello notification and the /ping response, got {other:?}")) }
                            }
                            if kinds != vec![true, false] { return Err(format!("{cause}: the notification queued by the connect callback did not reach the wire before the first response (notify flags in arrival order: {kinds:?})")); }
                            let ids = connects.lock().unwrap().clone();
                            if ids.len() != 1 || ids[0] == u64::MAX { return Err(format!("{cause}: connect callbacks ran {} time(s); peer present in the registry at connect: {}", ids.len(), ids.first().map(|i| *i != u64::MAX).unwrap_or(false))); }
                            if registry.get(PeerId(ids[0])).is_none() || registry.get_by(format!("session-{}", ids[0]).as_str()).is_none() { return Err(format!("{cause}: the peer or its alias is not in the registry while the connection is open")); }
                        }
                        match cause {
                            "clean_close" => { let _ = ws.close(None).await; }
                            "abrupt_drop" => { drop(ws); }
                            "text_frame" => { let _ = ws.send(WsMessage::Text("not binary".into())).await; let _ = ws.flush().await; tokio::time::sleep(Duration::from_millis(50)).await; drop(ws); }
                            "malformed_binary" => { let _ = ws.send(WsMessage::Binary(vec![1u8; 10].into())).await; let _ = ws.flush().await; tokio::time::sleep(Duration::from_millis(50)).await; drop(ws); }
                            "inline_handler_panic" => { let _ = ws.send(req(2, "/boom")).await; let _ = ws.flush().await; tokio::time::sleep(Duration::from_millis(100)).await; drop(ws); }
                            "connect_callback_panic" => { tokio::time::sleep(Duration::from_millis(100)).await; drop(ws); }
                            "embedder_cancel" => { token.cancel(); tokio::time::sleep(Duration::from_millis(50)).await; drop(ws); }
                            "inline_ctx_handler_during_cancel" => {
                                let _ = ws.send(req(4, "/spin")).await; let _ = ws.flush().await;
                                let t0 = std::time::Instant::now();
                                while parked.load(Ordering::SeqCst) == 0 { if t0.elapsed() > Duration::from_secs(5) { return Err("the inline handler never started".into()); } tokio::time::sleep(Duration::from_millis(5)).await; }
                                token.cancel();
                                let t1 = std::time::Instant::now();
                                while observed_cancel.load(Ordering::SeqCst) == 0 { if t1.elapsed() > Duration::from_secs(5) { return Err("inline_ctx_handler_during_cancel: an inline handler still running when the embedder cancelled the connection did not observe cancellation".into()); } tokio::time::sleep(Duration::from_millis(10)).await; }
                                drop(ws);
                            }
                            "parked_offreader_then_inline_panic" => {
                                let _ = ws.send(req(3, "/park")).await; let _ = ws.flush().await;
                                let t0 = std::time::Instant::now();
                                while parked.load(Ordering::SeqCst) == 0 { if t0.elapsed() > Duration::from_secs(5) { return Err("the off-reader handler never started".into()); } tokio::time::sleep(Duration::from_millis(5)).await; }
                                let _ = ws.send(req(2, "/boom")).await; let _ = ws.flush().await;
                                let t1 = std::time::Instant::now();
                                while observed_cancel.load(Ordering::SeqCst) == 0 { if t1.elapsed() > Duration::from_secs(5) { return Err("parked_offreader_then_inline_panic: the connection ended by a handler panic, yet the off-reader handler still running on it never observed cancellation".into()); } tokio::time::sleep(Duration::from_millis(10)).await; }
                                drop(ws);
                            }
                            "parked_offreader_then_drop" => {
                                let _ = ws.send(req(3, "/park")).await; let _ = ws.flush().await;
                                let t0 = std::time::Instant::now();
                                while parked.load(Ordering::SeqCst) == 0 { if t0.elapsed() > Duration::from_secs(5) { return Err("the off-reader handler never started".into()); } tokio::time::sleep(Duration::from_millis(5)).await; }
                                drop(ws);
                            }
                            _ => unreachable!(),
                        }
                        // exactly one disconnect, with the peer already purged when the embedder's hook (registered after the registry's) runs
                        let t0 = std::time::Instant::now();
                        loop {
                            let n = disconnects.lock().unwrap().len();
                            if n >= 1 { break; }
                            if t0.elapsed() > Duration::from_secs(6) { return Err(format!("{cause}: the disconnect callbacks never ran for an accepted connection (connect callbacks ran {} time(s))", connects.lock().unwrap().len())); }
                            tokio::time::sleep(Duration::from_millis(10)).await;
                        }
                        tokio::time::sleep(Duration::from_millis(250)).await;
                        let ds = disconnects.lock().unwrap().clone();
                        let cs = connects.lock().unwrap().clone();
                        if ds.len() != 1 { return Err(format!("{cause}: the disconnect callbacks ran {} times for one connection", ds.len())); }
                        let es = early_seen.lock().unwrap().clone();
                        if es.len() != 1 { return Err(format!("{cause}: the disconnect callback registered before the registry ran {} times", es.len())); }
                        if cause != "connect_callback_panic" && !es[0].1 { return Err(format!("{cause}: a disconnect callback registered before with_peer_registry found the peer or its alias already gone: the registry's removal no longer runs in registration order")); }
                        if cs.len() != 1 || cs[0] != ds[0].0 { return Err(format!("{cause}: connect saw peers {cs:?}, disconnect saw {:?}", ds.iter().map(|d| d.0).collect::<Vec<_>>())); }
                        if ds[0].1 || ds[0].2 || registry.get(PeerId(ds[0].0)).is_some() || registry.get_by(format!("session-{}", ds[0].0).as_str()).is_some() || !registry.is_empty() {
                            return Err(format!("{cause}: after the disconnect callbacks the peer or its alias is still in the registry (in hook: peer {}, alias {}; now: {} peers)", ds[0].1, ds[0].2, registry.len()));
                        }
                        if cause == "parked_offreader_then_drop" {
                            let t1 = std::time::Instant::now();
                            while observed_cancel.load(Ordering::SeqCst) == 0 { if t1.elapsed() > Duration::from_secs(5) { return Err("a handler still running when the connection ended did not observe cancellation".into()); } tokio::time::sleep(Duration::from_millis(10)).await; }
                        }
                        server_task.abort();
                        Ok(())
                    });
                    res?;
                    done += 1;
                }
                Ok(())
            })();
            // the built-in accept loop with graceful drain: three open connections, shutdown, every one gets its disconnect callbacks once
            let outcome = outcome.and_then(|_| {
                let connects = Arc::new(AtomicUsize::new(0));
                let disconnects: Arc<Mutex<Vec<u64>>> = Arc::new(Mutex::new(Vec::new()));
                let registry = PeerRegistry::new();
                let (c2, d2) = (connects.clone(), disconnects.clone());
                let server = WebSocketServer::new(Router::new().with_json("/ping", |_| Ok(json!("pong"))))
                    .with_peer_registry(registry.clone())
                    .on_peer_connect(move |_p| { c2.fetch_add(1, Ordering::SeqCst); })
                    .on_peer_disconnect(move |id| { d2.lock().unwrap().push(id.0); });
                rt.block_on(async {
                    let listener = tokio::net::TcpListener::bind(("127.0.0.1", 0)).await.map_err(|e| e.to_string())?;
                    let addr = listener.local_addr().unwrap();
                    let (stop_tx, stop_rx) = tokio::sync::oneshot::channel::<()>();
                    let serving = tokio::spawn(async move { server.serve_listener_with_graceful_drain(listener, "/repe", async move { let _ = stop_rx.await; }, Duration::from_millis(500)).await });
                    let mut clients = Vec::new();
                    for _ in 0..3 { let (ws, _) = repe::tokio_tungstenite::connect_async(format!("ws://{addr}/repe")).await.map_err(|e| e.to_string())?; clients.push(ws); }
                    let t0 = std::time::Instant::now();
                    while connects.load(Ordering::SeqCst) < 3 { if t0.elapsed() > Duration::from_secs(5) { return Err(format!("graceful drain: only {} of 3 connections ran their connect callbacks", connects.load(Ordering::SeqCst))); } tokio::time::sleep(Duration::from_millis(10)).await; }
                    if registry.len() != 3 { return Err(format!("graceful drain: {} peers in the registry with 3 connections open", registry.len())); }
                    let _ = stop_tx.send(());
                    match tokio::time::timeout(Duration::from_secs(6), serving).await { Ok(_) => {}, Err(_) => return Err("graceful drain: the accept loop did not return within 6 s of shutdown (drain deadline 0.5 s)".into()) }
                    tokio::time::sleep(Duration::from_millis(200)).await;
                    let mut ds = disconnects.lock().unwrap().clone();
                    ds.sort();
                    let mut uniq = ds.clone(); uniq.dedup();
                    if ds.len() != 3 || uniq.len() != 3 { return Err(format!("graceful drain: disconnect callbacks ran for peers {ds:?}; expected exactly once for each of the 3 connections")); }
                    if !registry.is_empty() { return Err(format!("graceful drain: {} peers left in the registry after shutdown", registry.len())); }
                    drop(clients);
                    Ok(())
                })
            });
            if outcome.is_ok() { done += 1; }
            // drain deadline with a straggler: when the accept loop returns, the aborted connection's disconnect callbacks have already run
            let outcome = outcome.and_then(|_| {
                let started = Arc::new(AtomicUsize::new(0));
                let st2 = started.clone();
                let disconnects = Arc::new(AtomicUsize::new(0));
                let d2 = disconnects.clone();
                let registry = PeerRegistry::new();
                let server = WebSocketServer::new(Router::new().with_json("/slow", move |_| { st2.fetch_add(1, Ordering::SeqCst); std::thread::sleep(Duration::from_millis(1200)); Ok(json!("late")) }))
                    .with_peer_registry(registry.clone())
                    .on_peer_disconnect(move |_| { d2.fetch_add(1, Ordering::SeqCst); });
                // its own two-worker runtime: one worker is pinned by the synchronous handler, the other is then the only one that can
                // drive timers and the accept loop, which makes the drain deadline fire on time in every run
                let rt2 = tokio::runtime::Builder::new_multi_thread().worker_threads(2).enable_all().build().unwrap();
                let r = rt2.block_on(async {
                    let listener = tokio::net::TcpListener::bind(("127.0.0.1", 0)).await.map_err(|e| e.to_string())?;
                    let addr = listener.local_addr().unwrap();
                    let (stop_tx, stop_rx) = tokio::sync::oneshot::channel::<()>();
                    // keep another worker polling the time driver while one worker is pinned by the synchronous handler, so that the
                    // 100 ms drain deadline fires on time (otherwise tokio may deliver it only when the pinned worker is free again)
                    let ticker = tokio::spawn(async { let mut iv = tokio::time::interval(Duration::from_millis(5)); loop { iv.tick().await; } });
                    // ... and keep injecting no-op tasks from a plain thread: a worker woken for one of them services the timer wheel
                    let stop_inject = Arc::new(std::sync::atomic::AtomicBool::new(false));
                    let injector = { let st = stop_inject.clone(); let h = tokio::runtime::Handle::current(); std::thread::spawn(move || { while !st.load(Ordering::SeqCst) { h.spawn(async {}); std::thread::sleep(Duration::from_millis(2)); } }) };
                    let serving = tokio::spawn(async move { server.serve_listener_with_graceful_drain(listener, "/repe", async move { let _ = stop_rx.await; }, Duration::from_millis(100)).await });
                    let (mut ws, _) = repe::tokio_tungstenite::connect_async(format!("ws://{addr}/repe")).await.map_err(|e| e.to_string())?;
                    let m = repe::Message::builder().id(1).query_str("/slow").query_format(repe::QueryFormat::JsonPointer).body_json(&json!({})).unwrap().build();
                    ws.send(WsMessage::Binary(m.to_vec().into())).await.map_err(|e| e.to_string())?;
                    let t0 = std::time::Instant::now();
                    while started.load(Ordering::SeqCst) == 0 { if t0.elapsed() > Duration::from_secs(5) { return Err("drain straggler: the slow handler never started".to_string()); } tokio::time::sleep(Duration::from_millis(5)).await; }
                    let _ = stop_tx.send(());
                    match tokio::time::timeout(Duration::from_secs(8), serving).await { Ok(_) => {}, Err(_) => return Err("drain straggler: the accept loop did not return within 8 s".into()) }
                    let n = disconnects.load(Ordering::SeqCst);
                    ticker.abort();
                    stop_inject.store(true, Ordering::SeqCst);
                    let _ = injector.join();
                    if n != 1 || !registry.is_empty() { return Err(format!("drain straggler: the graceful-drain call returned after aborting a straggler, but its disconnect callbacks had run {n} time(s) and {} peer(s) were still registered at that moment", registry.len())); }
                    drop(ws);
                    Ok(())
                });
                rt2.shutdown_background();
                r
            });
            if outcome.is_ok() { done += 1; }
            // embedder cancellation while the reader is parked handing a response to a full outbound queue (adopted upgraded stream)
            let outcome = outcome.and_then(|_| {
                use repe::tokio_tungstenite::tungstenite::protocol::Role;
                let served = Arc::new(AtomicUsize::new(0));
                let s2 = served.clone();
                let router = Router::new().with_json("/blob", move |_| { s2.fetch_add(1, Ordering::SeqCst); Ok(json!({"data": "x".repeat(64 * 1024)})) });
                let registry = PeerRegistry::new();
                let disconnects = Arc::new(AtomicUsize::new(0));
                let d2 = disconnects.clone();
                let shared = WebSocketServer::new(router).with_outbound_capacity(1).with_peer_registry(registry.clone()).on_peer_disconnect(move |_| { d2.fetch_add(1, Ordering::SeqCst); }).into_shared();
                rt.block_on(async {
                    let (server_io, client_io) = tokio::io::duplex(1024);
                    let token = ShutdownToken::new();
                    let (tk, sh) = (token.clone(), shared.clone());
                    let conn = tokio::spawn(async move { let ws = sh.adopt_upgraded(server_io).await; sh.serve_connection_with_cancel(ws, &tk).await });
                    let mut client = repe::tokio_tungstenite::WebSocketStream::from_raw_socket(client_io, Role::Client, None).await;
                    for id in 1..=4u64 {
                        let m = repe::Message::builder().id(id).query_str("/blob").query_format(repe::QueryFormat::JsonPointer).body_json(&json!({})).unwrap().build();
                        client.send(WsMessage::Binary(m.to_vec().into())).await.map_err(|e| e.to_string())?;
                    }
                    let t0 = std::time::Instant::now();
                    while served.load(Ordering::SeqCst) < 3 { if t0.elapsed() > Duration::from_secs(5) { return Err("full outbound queue: setup did not park the reader".to_string()); } tokio::time::sleep(Duration::from_millis(10)).await; }
                    tokio::time::sleep(Duration::from_millis(100)).await;
                    if disconnects.load(Ordering::SeqCst) != 0 || registry.len() != 1 { return Err("full outbound queue: the connection ended before the cancel".into()); }
                    token.cancel();
                    let t1 = std::time::Instant::now();
                    while disconnects.load(Ordering::SeqCst) == 0 { if t1.elapsed() > Duration::from_secs(5) { return Err("full outbound queue: the embedder cancelled the connection while its reader was parked on the full outbound queue (peer not reading); the connection never ended: disconnect callbacks ran 0 times and the peer is still registered".to_string()); } tokio::time::sleep(Duration::from_millis(10)).await; }
                    if !registry.is_empty() { return Err("full outbound queue: peer still registered after its disconnect callbacks ran".into()); }
                    drop(client);
                    let _ = tokio::time::timeout(Duration::from_secs(5), conn).await;
                    if disconnects.load(Ordering::SeqCst) != 1 { return Err(format!("full outbound queue: disconnect callbacks ran {} times", disconnects.load(Ordering::SeqCst))); }
                    Ok(())
                })
            });
            if outcome.is_ok() { done += 1; }
            rt.shutdown_background();
            outcome?;
            Ok(format!("{done} exit causes / phases held (inline handler during cancel, parked off-reader handler when an inline handler panics, cancel with a full outbound queue on an adopted stream, drain deadline with a straggler, graceful drain of three connections, clean close, abrupt drop, text frame, malformed frame, inline handler panic, connect-callback panic, embedder cancel, parked off-reader handler, failed handshake)"))
        }
        "client_id_sequence" => {
            // Bounded stand-in for C04's "all request ids on one connection are distinct" on the sequential side: one
            // caller alternates notifies and calls (every public request-issuing entry point used by the other stand-ins);
            // the server records the id of every frame. Deterministic; the concurrent side is client_id_stress.
            use std::io::Write as _;
            let listener = std::net::TcpListener::bind("127.0.0.1:0").map_err(|e| e.to_string())?;
            let addr = listener.local_addr().unwrap();
            let (tx, rx) = std::sync::mpsc::channel::<(u64, u8)>();
            std::thread::spawn(move || {
                for conn in listener.incoming() {
                    let Ok(stream) = conn else { break };
                    let tx = tx.clone();
                    std::thread::spawn(move || {
                        let mut reader = std::io::BufReader::new(stream.try_clone().unwrap());
                        let mut writer = std::io::BufWriter::new(stream);
                        while let Ok(req) = repe::read_message(&mut reader) {
                            let _ = tx.send((req.header.id, req.header.notify));
                            if req.header.notify != 0 { continue; }
                            let resp = repe::Message::builder().id(req.header.id).body_json(&serde_json::json!("ok")).unwrap().build();
                            if repe::write_message(&mut writer, &resp).is_err() || writer.flush().is_err() { break; }
                        }
                    });
                }
            });
            let rt = tokio::runtime::Builder::new_current_thread().enable_all().build().unwrap();
            let mut total = 0;
            for which in ["blocking", "async"] {
                if which == "blocking" {
                    let c = repe::Client::connect(addr).map_err(|e| e.to_string())?;
                    for i in 0..6 {
                        c.notify_json("/n", &serde_json::json!(i)).map_err(|e| e.to_string())?;
                        c.call_json("/c", &serde_json::json!(i)).map_err(|e| e.to_string())?;
                        c.notify_with_formats("/raw", 1, Some(b"x"), 0).map_err(|e| e.to_string())?;
                        c.notify_typed_json("/t", &i).map_err(|e| e.to_string())?;
                    }
                    let _ = c.batch_json(vec![("/b1".to_string(), serde_json::json!(1)), ("/b2".to_string(), serde_json::json!(2))]);
                } else {
                    rt.block_on(async {
                        let c = repe::AsyncClient::connect(addr).await.map_err(|e| e.to_string())?;
                        for i in 0..6 {
                            c.notify_json("/n", &serde_json::json!(i)).await.map_err(|e| e.to_string())?;
                            c.call_json("/c", &serde_json::json!(i)).await.map_err(|e| e.to_string())?;
                            c.notify_with_formats("/raw", 1, Some(b"x"), 0).await.map_err(|e| e.to_string())?;
                            c.notify_typed_json("/t", &i).await.map_err(|e| e.to_string())?;
                        }
                        let _ = c.batch_json(vec![("/b1".to_string(), serde_json::json!(1)), ("/b2".to_string(), serde_json::json!(2))]).await;
                        Ok::<(), String>(())
                    })?;
                }
                let mut ids = Vec::new();
                while let Ok(x) = rx.recv_timeout(std::time::Duration::from_millis(300)) { ids.push(x); }
                if ids.len() != 26 { return Err(format!("{which} client: the server saw {} frames, 26 were sent", ids.len())); }
                let mut seen = std::collections::HashMap::new();
                for (k, (id, notify)) in ids.iter().enumerate() {
                    if let Some(prev) = seen.insert(*id, k) { return Err(format!("{which} client: request id {id} was issued twice on one connection (frames {prev} and {k}; notify flags {} and {notify})", ids[prev].1)); }
                }
                total += ids.len();
            }
            Ok(format!("{total} ids on two connections, all distinct"))
        }
        "ws_notify_vs_pending" => {
            // Bounded stand-in for C04 on the WebSocket client: a server-pushed frame with a non-zero notify flag (1, 2, 255)
            // that reuses the id of a call in flight must never be delivered to that call, with or without a notification
            // subscriber; the call gets the real response that follows.
            use repe::tokio_tungstenite::tungstenite::Message as WsMessage;
            use futures_util::{SinkExt, StreamExt};
            let rt = tokio::runtime::Builder::new_multi_thread().worker_threads(2).enable_all().build().unwrap();
            let out: Result<String, String> = rt.block_on(async {
                let mut cases = 0;
                for mode in [0u8, 1, 2] { let subscribe = mode == 1; for flag in [1u8, 2, 255] {
                    let listener = tokio::net::TcpListener::bind("127.0.0.1:0").await.map_err(|e| e.to_string())?;
                    let addr = listener.local_addr().unwrap();
                    tokio::spawn(async move {
                        let Ok((stream, _)) = listener.accept().await else { return };
                        let Ok(mut ws) = repe::tokio_tungstenite::accept_async(stream).await else { return };
                        while let Some(Ok(frame)) = ws.next().await {
                            let WsMessage::Binary(b) = frame else { continue };
                            let Ok(req) = repe::Message::from_slice_exact(&b) else { continue };
                            // first a push that reuses the call's id, then the real answer
                            let mut push = repe::Message::builder().id(req.header.id).query_str("/push").body_json(&serde_json::json!({"kind": "push"})).unwrap().build();
                            push.header.notify = flag;
                            let _ = ws.send(WsMessage::Binary(push.to_vec().into())).await;
                            let resp = repe::Message::builder().id(req.header.id).query_bytes(req.query.clone()).body_json(&serde_json::json!({"kind": "answer"})).unwrap().build();
                            let _ = ws.send(WsMessage::Binary(resp.to_vec().into())).await;
                        }
                    });
                    let client = repe::WebSocketClient::connect(&format!("ws://{addr}/repe")).await.map_err(|e| e.to_string())?;
                    let mut sub = if subscribe { Some(client.subscribe_notifies().map_err(|e| format!("{e:?}"))?) } else { None };
                    // mode 2: a subscriber whose receiver was dropped without unsubscribing -- the push cannot be delivered as a notification
                    // and must still not be handed to the call in flight
                    if mode == 2 { drop(client.subscribe_notifies().map_err(|e| format!("{e:?}"))?); }
                    let v = tokio::time::timeout(std::time::Duration::from_secs(5), client.call_json("/a", &serde_json::json!({}))).await.map_err(|_| format!("subscriber={subscribe} flag={flag}: the call hung"))?.map_err(|e| format!("subscriber={subscribe} flag={flag}: the call failed: {e}"))?;
                    if v["kind"] != "answer" { return Err(format!("subscriber mode {mode} (0 none, 1 live, 2 receiver dropped), notify flag {flag}: a pushed frame that reuses the id of a call in flight was delivered to that call as its response ({v})")); }
                    if let Some(rx) = sub.as_mut() {
                        let got = tokio::time::timeout(std::time::Duration::from_secs(5), rx.recv()).await.map_err(|_| format!("flag={flag}: the subscriber never saw the push"))?;
                        if got.is_none() { return Err(format!("flag={flag}: the notification stream ended")); }
                    }
                    cases += 1;
                } }
                Ok(format!("{cases} push-vs-pending cases held"))
            });
            rt.shutdown_background();
            out
        }
        other => panic!("unknown replay entry `{other}`"),
    }
}

// A deviation is a confirmed failure of one specific, named input class that the sweep reports and then
// steps over, so that the rest of the scope is still explored. The driver decides whether it is a listed
// known finding (KNOWN-FINDING line) or a violation.
static DEVIATIONS: std::sync::Mutex<Vec<(String, String)>> = std::sync::Mutex::new(Vec::new());
fn deviation(name: &str, detail: String) {
    let mut d = DEVIATIONS.lock().unwrap();
    if !d.iter().any(|(n, _)| n == name) {
        d.push((name.to_string(), detail));
    }
}

// ---- C08 bounded stand-in: bulk numeric bodies -------------------------------------------------------
fn lcg(seed: &mut u64) -> u64 {
    *seed = seed.wrapping_mul(6364136223846793005).wrapping_add(1442695040888963407);
    *seed
}
trait Gen: Sized + Copy + PartialEq + std::fmt::Debug + repe::BeveTypedSlice + serde::Serialize + serde::de::DeserializeOwned + Send + Sync + 'static {
    fn from_bits64(b: u64) -> Self;
    fn bits64(self) -> u64;
    const SPECIAL: &'static [u64];
}
macro_rules! gen_int { ($($t:ty),*) => { $(impl Gen for $t {
    fn from_bits64(b: u64) -> Self { b as $t }
    fn bits64(self) -> u64 { self as u64 }
    const SPECIAL: &'static [u64] = &[0, 1, u64::MAX, 1 << 7, 1 << 15, 1 << 31, 1 << 63, (1 << 63) - 1];
})* } }
gen_int!(u8, u16, u32, u64, i8, i16, i32, i64);
impl Gen for f32 {
    fn from_bits64(b: u64) -> Self { f32::from_bits(b as u32) }
    fn bits64(self) -> u64 { self.to_bits() as u64 }
    // +-0, +-inf, quiet/signalling NaNs with payloads, subnormal, max
    const SPECIAL: &'static [u64] = &[0, 0x8000_0000, 0x7f80_0000, 0xff80_0000, 0x7fc0_0001, 0x7fa0_1234, 0xffff_ffff, 1, 0x7f7f_ffff];
}
impl Gen for f64 {
    fn from_bits64(b: u64) -> Self { f64::from_bits(b) }
    fn bits64(self) -> u64 { self.to_bits() }
    const SPECIAL: &'static [u64] = &[0, 0x8000_0000_0000_0000, 0x7ff0_0000_0000_0000, 0xfff0_0000_0000_0000, 0x7ff8_0000_0000_0001, 0x7ff4_0000_dead_beef, u64::MAX, 1, 0x7fef_ffff_ffff_ffff];
}
fn gen_vec<T: Gen>(n: usize, seed: &mut u64) -> Vec<T> {
    (0..n).map(|i| if i < T::SPECIAL.len() { T::from_bits64(T::SPECIAL[i]) } else { T::from_bits64(lcg(seed)) }).collect()
}
fn same_bits<T: Gen>(a: &[T], b: &[T]) -> bool { a.len() == b.len() && a.iter().zip(b).all(|(x, y)| x.bits64() == y.bits64()) }

fn bulk_sweep_type<T: Gen>(name: &str, lens: &[usize]) -> Result<usize, String> {
    use repe::peer::CallContext;
    let mut seed = 0x9E3779B97F4A7C15u64 ^ name.len() as u64;
    let mut cases = 0;
    let router = repe::Router::new()
        .with_typed_slice_ref::<T, T, _>("/r", |xs: &[T]| Ok(xs.to_vec()))
        .with_typed_slice::<T, T, _>("/o", |xs: Vec<T>| Ok(xs));
    for &n in lens {
        let data: Vec<T> = gen_vec(n, &mut seed);
        // 1. bulk body == generic serde body (non-empty), BEVE format
        let bulk = repe::Message::builder().id(1).query_str("/q").body_typed_slice(&data).build();
        if bulk.header.body_format != repe::BodyFormat::Beve as u16 { return Err(format!("{name} n={n}: body_typed_slice did not set the BEVE format")); }
        let generic = repe::Message::builder().id(1).query_str("/q").body_beve(&data).map_err(|e| e.to_string())?.build();
        if n >= 1 && bulk.body != generic.body { return Err(format!("{name} n={n}: bulk body differs from the generic serde body")); }
        // 2. each decoder reads the other encoder's output, bit for bit
        let d1: Vec<T> = bulk.decode_typed_slice().map_err(|e| format!("{name} n={n}: decode_typed_slice(bulk): {e}"))?;
        let d2: Vec<T> = match generic.decode_typed_slice() {
            Ok(v) => v,
            Err(e) if n == 0 => {
                deviation("empty_generic_vector_rejected_by_bulk_decoder", format!("Message::builder().body_beve(&Vec::<{name}>::new()) then decode_typed_slice::<{name}>() -> Err({e}); body bytes {:?}", generic.body));
                Vec::new()
            }
            Err(e) => return Err(format!("{name} n={n}: decode_typed_slice(generic): {e}")),
        };
        let d3: Vec<T> = bulk.beve_body().map_err(|e| format!("{name} n={n}: beve_body(bulk): {e}"))?;
        if !same_bits(&d1, &data) || !same_bits(&d2, &data) || !same_bits(&d3, &data) { return Err(format!("{name} n={n}: decoded elements differ from the originals")); }
        // 3. streaming writer == buffered builder frame, for every query length residue
        for qlen in [0usize, 1, 3, 7, 8, 9] {
            let q: Vec<u8> = (0..qlen).map(|i| if i == 0 { b'/' } else { b'a' + (i % 20) as u8 }).collect();
            let built = repe::Message::builder().id(9).query_bytes(q.clone()).query_format(repe::QueryFormat::JsonPointer).body_typed_slice(&data).build();
            let mut streamed = Vec::new();
            let mut h = repe::Header::new();
            h.id = 9;
            h.query_format = repe::QueryFormat::JsonPointer as u16;
            repe::write_message_typed_slice(&mut streamed, h, &q, &data).map_err(|e| e.to_string())?;
            if streamed != built.to_vec() { return Err(format!("{name} n={n} qlen={qlen}: write_message_typed_slice frame differs from the buffered builder's frame")); }
            if built.clone().into_wire_bytes() != built.to_vec() { return Err(format!("{name} n={n} qlen={qlen}: into_wire_bytes differs from to_vec")); }
        }
        // 4. wrong format / wrong element type is rejected, not reinterpreted
        for code in [0u16, 2, 3, 4, 0x1000, 0xffff] {
            let mut m = bulk.clone();
            m.header.body_format = code;
            if m.decode_typed_slice::<T>().is_ok() { return Err(format!("{name} n={n}: a body declared as format {code} was decoded as a typed array")); }
        }
        // 4b. ... also through the typed-slice routes, owned and borrowed dispatch alike, whatever the query format says
        for code in [0u16, 2, 3, 4, 0x1000, 0xffff] {
            for route in ["/r", "/o"] {
                let mut m = repe::Message::builder().id(5).query_str(route).query_format(repe::QueryFormat::JsonPointer).body_typed_slice(&data).build();
                m.header.body_format = code;
                let h = router.get(route).ok_or("route missing")?;
                let owned = h.handle(&m).map_err(|e| e.to_string())?;
                let wire = m.to_vec();
                let view = repe::MessageView::from_slice(&wire).map_err(|e| e.to_string())?;
                let borrowed = h.handle_view(&view, &CallContext::detached(route)).map_err(|e| e.to_string())?;
                if !owned.is_error() || !borrowed.is_error() || owned.header.ec != borrowed.header.ec {
                    return Err(format!("{name} n={n}: route {route} given a body declared as format {code}: owned dispatch answered ec {}, borrowed dispatch ec {}; both must reject it alike", owned.header.ec, borrowed.header.ec));
                }
            }
        }
        // 4c. the aligned builder pads for the payload's real offset 48 + |query|, whatever spare capacity the query buffer has
        for qlen in [1usize, 2, 5, 8, 13] {
            let q: Vec<u8> = (0..qlen).map(|i| if i == 0 { b'/' } else { b'q' }).collect();
            let reference = repe::Message::builder().id(6).query_bytes(q.clone()).body_aligned_typed_slice(&data).build().to_vec();
            for spare in 1..=9usize {
                let mut roomy = Vec::with_capacity(qlen + spare);
                roomy.extend_from_slice(&q);
                let got = repe::Message::builder().id(6).query_bytes(roomy).body_aligned_typed_slice(&data).build().to_vec();
                if got != reference { return Err(format!("{name} n={n} qlen={qlen}: the aligned body built over a query buffer with {spare} spare bytes of capacity differs from the one built over an exact buffer")); }
            }
        }
        // 5. the aligned form through the borrowing route, at every buffer misalignment and query length residue
        for qlen in 0..=16usize {
            let mut q = vec![b'r'; qlen.max(2)];
            q[0] = b'/';
            q.truncate(qlen.max(2));
            let path = String::from_utf8(q.clone()).unwrap();
            let r2 = repe::Router::new().with_typed_slice_ref::<T, T, _>(&path, |xs: &[T]| Ok(xs.to_vec()));
            let frame = repe::Message::builder().id(7).query_bytes(q.clone()).query_format(repe::QueryFormat::JsonPointer)
                .body_aligned_typed_slice(&data).build().to_vec();
            for mis in 0..8usize {
                let words = (frame.len() + mis) / 8 + 2;
                let mut backing: Vec<u64> = vec![0; words];
                let bytes = unsafe { std::slice::from_raw_parts_mut(backing.as_mut_ptr() as *mut u8, words * 8) };
                bytes[mis..mis + frame.len()].copy_from_slice(&frame);
                let placed = &bytes[mis..mis + frame.len()];
                let view = repe::MessageView::from_slice(placed).map_err(|e| e.to_string())?;
                let handler = r2.get(&path).ok_or("route missing")?;
                let ctx = CallContext::detached(&path);
                let resp = handler.handle_view(&view, &ctx).map_err(|e| format!("{name} n={n} qlen={} mis={mis}: handle_view: {e}", q.len()))?;
                if resp.is_error() { return Err(format!("{name} n={n} qlen={} mis={mis}: borrowing route answered an error: {:?}", q.len(), resp.error_message_utf8())); }
                let back: Vec<T> = resp.decode_typed_slice().map_err(|e| e.to_string())?;
                if !same_bits(&back, &data) { return Err(format!("{name} n={n} qlen={} mis={mis}: borrowing route saw different elements", q.len())); }
                // the owned dispatch path must agree
                let owned = handler.handle(&view.to_message()).map_err(|e| format!("{name} n={n} qlen={} mis={mis}: handle(owned): {e}", q.len()))?;
                if owned.is_error() || !same_bits(&owned.decode_typed_slice::<T>().map_err(|e| e.to_string())?, &data) {
                    return Err(format!("{name} n={n} qlen={}: owned dispatch of the aligned form failed or differs", q.len()));
                }
                cases += 1;
            }
        }
        let _ = &router;
        cases += 1;
    }
    Ok(cases)
}

fn main() {
    let args: Vec<String> = std::env::args().collect();
    if args.len() == 3 && args[1] == "--child" {
        let v: Value = serde_json::from_str(&std::fs::read_to_string(&args[2]).expect("read")).expect("json");
        match run(&v) {
            Ok(d) => {
                println!("CHILD ok {d}");
                for (n, det) in DEVIATIONS.lock().unwrap().iter() {
                    println!("DEVIATION {n} {det}");
                }
                std::process::exit(0)
            }
            Err(d) => {
                println!("CHILD violation {d}");
                std::process::exit(3)
            }
        }
    }
    if args.len() != 2 {
        eprintln!("usage: repe-verif-replay <file.json>");
        std::process::exit(2);
    }
    let text = std::fs::read_to_string(&args[1]).expect("read replay file");
    let v: Value = serde_json::from_str(&text).expect("json");
    let entry = v.get("entry").and_then(|x| x.as_str()).unwrap_or("none").to_string();
    if entry == "none" {
        println!("REPLAY entry=none outcome=not-replayable detail=no-failing-input-found (file names the failed obligation only)");
        std::process::exit(0);
    }
    let out = Command::new(std::env::current_exe().unwrap())
        .arg("--child")
        .arg(&args[1])
        .env("RUST_BACKTRACE", "0")
        .output()
        .expect("spawn child");
    let so = String::from_utf8_lossy(&out.stdout);
    let se = String::from_utf8_lossy(&out.stderr);
    let last_err = se.lines().filter(|l| !l.trim().is_empty()).take(3).collect::<Vec<_>>().join(" | ");
    let devs: Vec<String> = so.lines().filter(|l| l.starts_with("DEVIATION ")).map(|l| l[10..].to_string()).collect();
    for d in &devs {
        println!("DEVIATION {d}");
    }
    let (outcome, detail, code) = match out.status.code() {
        Some(0) => ("ok", so.lines().find(|l| l.starts_with("CHILD")).unwrap_or("").trim().to_string(), 0),
        Some(3) => ("violation", so.trim().to_string(), 1),
        Some(101) => ("panic", last_err, 1),
        Some(c) => ("exit", format!("code {c}: {last_err}"), 1),
        None => ("abort", format!("killed by signal: {last_err}"), 1),
    };
    println!("REPLAY entry={entry} outcome={outcome} detail={detail}");
    std::process::exit(code);
}
