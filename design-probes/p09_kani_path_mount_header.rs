#![allow(dead_code, unused_imports)]
#[path = "/repo/src/constants.rs"] pub mod constants;
#[path = "/repo/src/error.rs"] pub mod error;
#[path = "/repo/src/header.rs"] pub mod header;
pub use error::RepeError;

#[cfg(kani)]
mod proofs {
    use super::header::Header;
    #[kani::proof]
    fn encode_layout() {
        let h = Header {
            length: kani::any(), spec: kani::any(), version: kani::any(), notify: kani::any(),
            reserved: kani::any(), id: kani::any(), query_length: kani::any(), body_length: kani::any(),
            query_format: kani::any(), body_format: kani::any(), ec: kani::any(),
        };
        let b = h.encode();
        let i: usize = kani::any();
        kani::assume(i < 8);
        assert!(b[i] == (h.length >> (8*i)) as u8);
        assert!(b[16+i] == (h.id >> (8*i)) as u8);
        assert!(b[10] == h.version);
    }
    #[kani::proof]
    fn decode_no_panic() {
        let bytes: [u8; 48] = kani::any();
        let _ = Header::decode(&bytes);
    }
}
