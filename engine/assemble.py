"""Assemble a Verus unit file from a .vu template and /repo's current sources.

See DESIGN.md section 2/3.  Everything that is not a `//@` directive is copied
verbatim.  Directives:

  //@ include <relative path under /verif/units>
  //@ item <file> :: <path>                       one-line form
  //@ item <file> :: <path> {  ... options ... //@ }
  //@ fn   <file> :: <path> {  ... options ... //@ }

Options inside a block (4-space indented keywords; section content indented 8+):
    serves C01 C02          properties served by untagged (body) obligations
    ret r                   name for the return value (default r)
    rules R1 R2 R3 R4 R6 R10   built-in rewrite rules to apply
    rw <RULE> /regex/ => replacement      instance rewrite (python re; \\1 groups)
    rw? <RULE> /regex/ => replacement     same, but zero matches allowed
    sig <RULE> /regex/ => replacement     rewrite limited to the signature
    attr <text>             attribute line emitted above the fn
    rename <name>           rename the fn
    keep-attrs              keep the item's own attributes (derive...)
    nocanary                exclude from the reachability canary (diverging fn)
    contract:               requires/ensures text, spliced before the body `{`
    loop <k>:               invariant/decreases text for the k-th loop keyword
    before /regex/ [#k]:    ghost lines inserted before the line of the k-th match
    after /regex/ [#k]:     ghost lines inserted after the statement of the match
    body-prefix:            lines inserted right after the body's `{`
Lines carrying `// @ob <props> <name>` name an obligation.
"""
import os
import re
from .lex import mask, match_brace
from .extract import Source, LostAnchor


class UnitError(Exception):
    """malformed unit file (my bug)"""


class Unsupported(Exception):
    """construct outside the rewrite table"""


FIELD_TYPES = {}  # field name -> int type, harvested from extracted structs


def _strip_outer(src_item_text):
    return src_item_text


_INT_T = r"(?:u8|u16|u32|u64|u128|usize|i8|i16|i32|i64|i128|isize)"


def rule_R0(text, log):
    # crate-relative paths -> flat namespace
    n = 0

    def sub(m):
        nonlocal n
        n += 1
        return ""
    text = re.sub(r"\bcrate::(?:[a-z_][a-z0-9_]*::)*", sub, text)
    if n:
        log.append(("R0", "crate:: path prefix stripped", n))
    return text


def _resolve_int_type(expr, local_types):
    e = expr.strip()
    m = re.search(r"\bas\s+(" + _INT_T + r")\s*\)?$", e)
    if m:
        return m.group(1)
    m = re.match(r"^\(?\s*(\d[\d_]*)(" + _INT_T + r")\s*\)?$", e)
    if m:
        return m.group(2)
    last = re.split(r"[.\s(]", e.rstrip(")"))[-1]
    if last in local_types:
        return local_types[last]
    if last in FIELD_TYPES:
        return FIELD_TYPES[last]
    return None


def rule_R1(text, log, local_types):
    m_ = mask(text)
    out = []
    pos = 0
    n = 0
    # T::from_le_bytes(S.try_into().unwrap())  ->  from_le_T(&S)   (S is a slice expression)
    pat_from = re.compile(r"\b(" + _INT_T + r")::from_(le|be)_bytes\(")
    pat_to = re.compile(r"\.to_(le|be)_bytes\(\)")
    i = 0
    edits = []  # (start, end, replacement)
    for m in pat_from.finditer(m_):
        op = m.end() - 1
        cl = match_brace(m_, op, "(", ")")
        inner = text[op + 1:cl]
        mi = re.match(r"^(.*)\.try_into\(\)\s*\.unwrap\(\)\s*$", inner, re.S)
        if mi:
            edits.append((m.start(), cl + 1, "from_%s_%s(&%s)" % (m.group(2), m.group(1), mi.group(1))))
        else:
            # array argument
            edits.append((m.start(), cl + 1, "from_%s_%s_arr(%s)" % (m.group(2), m.group(1), inner)))
    for m in pat_to.finditer(m_):
        # receiver expression: scan backwards over a postfix chain
        j = m.start()
        k = j
        depth = 0
        while k > 0:
            c = m_[k - 1]
            if c in ")]":
                depth += 1
            elif c in "([":
                if depth == 0:
                    break
                depth -= 1
            elif depth == 0 and not (c.isalnum() or c in "_.:"):
                break
            k -= 1
        recv = text[k:j]
        # a leading `&` or `*` stays outside
        ty = _resolve_int_type(recv, local_types)
        if ty is None:
            raise Unsupported("R1: cannot resolve integer type of `%s` in to_%s_bytes" % (recv, m.group(1)))
        edits.append((k, m.end(), "%s_bytes_%s(%s)" % (m.group(1), ty, recv)))
    edits.sort()
    res = []
    pos = 0
    for (a, b, r) in edits:
        if a < pos:
            raise Unsupported("R1: overlapping byte-order conversions")
        res.append(text[pos:a])
        nl = text[a:b].count("\n")
        res.append(r.replace("\n", " ") + "\n" * nl)
        pos = b
        n += 1
    res.append(text[pos:])
    if n:
        log.append(("R1", "to/from_{le,be}_bytes -> contract-carrying wrapper", n))
    return "".join(res)


def _macro_sub(text, name, repl_fn, log, rule, what):
    """Replace `name!( ... )` (or [..]) invocations; repl_fn(inner)->str."""
    n = 0
    while True:
        m_ = mask(text)
        m = re.search(r"\b" + re.escape(name) + r"!\s*([\(\[])", m_)
        if not m:
            break
        op = m.end() - 1
        cl = match_brace(m_, op, m_[op], ")" if m_[op] == "(" else "]")
        inner = text[op + 1:cl]
        whole = text[m.start():cl + 1]
        r = repl_fn(inner)
        text = text[:m.start()] + r + "\n" * (whole.count("\n") - r.count("\n")) + text[cl + 1:]
        n += 1
    if n:
        log.append((rule, what, n))
    return text


def rule_R2(text, log):
    def r(inner):
        mi = re.match(r"^\s*0u8\s*;\s*(.*)$", inner, re.S)
        if not mi:
            raise Unsupported("R2: vec! form not `vec![0u8; N]`: %s" % inner)
        return "vec_zeroed(%s)" % mi.group(1).strip()
    return _macro_sub(text, "vec", r, log, "R2", "vec![0u8; N] -> vec_zeroed(N) (requires N < 2^62)")


def rule_R3(text, log):
    text = _macro_sub(text, "format", lambda inner: "opaque_string()", log, "R3",
                      "format!(..) -> opaque_string()")
    return text


def rule_R4(text, log):
    n = 0
    for name in ("debug_assert_eq", "debug_assert_ne", "debug_assert"):
        while True:
            m_ = mask(text)
            m = re.search(r"\b" + name + r"!\s*\(", m_)
            if not m:
                break
            op = m.end() - 1
            cl = match_brace(m_, op, "(", ")")
            end = cl + 1
            k = end
            while k < len(text) and text[k] in " \t":
                k += 1
            if k < len(text) and text[k] == ";":
                end = k + 1
            whole = text[m.start():end]
            text = text[:m.start()] + "\n" * whole.count("\n") + text[end:]
            n += 1
    if n:
        log.append(("R4", "debug_assert!(..) statement dropped", n))
    return text


def rule_R6(text, log):
    n = 0
    m_ = mask(text)
    # .await removal
    edits = [(m.start(), m.end()) for m in re.finditer(r"\s*\.\s*await\b", m_)]
    for a, b in reversed(edits):
        nl = text[a:b].count("\n")
        text = text[:a] + "\n" * nl + text[b:]
        n += 1
    if n:
        log.append(("R6", ".await removed (run-to-completion view)", n))
    return text


def rule_R10(head, body, log):
    """fn f(mut self, ..) { B } -> fn f(self, ..) { let mut self_ = self; B[self:=self_] }"""
    mh = re.search(r"\(\s*mut\s+self\b", head)
    if not mh:
        return head, body
    head = head[:mh.start()] + "(self" + head[mh.end():]
    mb = mask(body)
    out = []
    pos = 0
    for m in re.finditer(r"\bself\b", mb):
        out.append(body[pos:m.start()])
        out.append("self_")
        pos = m.end()
    out.append(body[pos:])
    body2 = "".join(out)
    assert body2[0] == "{"
    body2 = "{ let mut self_ = self;" + body2[1:]
    log.append(("R10", "mut self -> let mut self_ = self", 1))
    return head, body2


class FnOut:
    def __init__(self):
        self.name = None
        self.path = None
        self.file = None
        self.serves = []
        self.line_start = None  # in generated file (1-based), filled by Unit
        self.line_end = None
        self.nocanary = False
        self.has_contract = False
        self.rewrites = []
        self.repo_line = None
        self.extra = []


class Piece:
    __slots__ = ("text", "orig_line")  # orig_line: repo line of first char or None

    def __init__(self, text, orig_line=None):
        self.text = text
        self.orig_line = orig_line


def _parse_block(lines):
    """lines: option lines of a block.  Returns dict."""
    opts = {"serves": [], "ret": "r", "rules": [], "rw": [], "sig": [], "attr": [],
            "rename": None, "keep_attrs": False, "nocanary": False, "contract": [],
            "loops": {}, "before": [], "after": [], "body_prefix": [], "types": {}}
    cur = None
    for ln in lines:
        if not ln.strip():
            if cur is not None:
                cur.append("")
            continue
        ind = len(ln) - len(ln.lstrip(" "))
        s = ln.strip()
        if ind <= 4:
            cur = None
            kw = s.split(None, 1)[0]
            rest = s[len(kw):].strip()
            if kw == "serves":
                opts["serves"] = rest.split()
            elif kw == "ret":
                opts["ret"] = rest
            elif kw == "rules":
                opts["rules"] = rest.split()
            elif kw in ("rw", "rw?", "sig"):
                m = re.match(r"^(\S+)\s+/(.*)/\s+=>\s?(.*)$", rest)
                if not m:
                    raise UnitError("bad rewrite: " + ln)
                ent = (m.group(1), m.group(2), m.group(3), kw == "rw?")
                (opts["sig"] if kw == "sig" else opts["rw"]).append(ent)
            elif kw == "attr":
                opts["attr"].append(rest)
            elif kw == "rename":
                opts["rename"] = rest
            elif kw == "keep-attrs":
                opts["keep_attrs"] = True
            elif kw == "nocanary":
                opts["nocanary"] = True
            elif kw == "absent-ok":
                opts["absent_ok"] = True
            elif kw == "omit-shell":
                opts["omit_shell"] = True
            elif kw in ("lift", "lift-block", "lift-closure", "lift-expr"):
                m = re.match(r"^(\w+)\s+/(.*)/\s*$", rest)
                if not m:
                    raise UnitError("bad lift: " + ln)
                opts.setdefault("lifts", {})[m.group(1)] = {"pat": m.group(2), "call": None, "head": None,
                                                           "mutrefs": [], "contract": [], "serves": None,
                                                           "block": kw == "lift-block", "closure_arg": kw == "lift-closure", "expr": kw == "lift-expr", "rw": []}
            elif kw in ("lift-rw", "lift-rw?"):
                m = re.match(r"^(\w+)\s+(\S+)\s+/(.*)/\s+=>\s?(.*)$", rest)
                if not m:
                    raise UnitError("bad lift-rw: " + ln)
                opts["lifts"][m.group(1)]["rw"].append((m.group(2), m.group(3), m.group(4), kw.endswith("?")))
            elif kw == "lift-call":
                n_, t_ = rest.split(None, 1)
                opts["lifts"][n_]["call"] = t_
            elif kw == "lift-head":
                n_, t_ = rest.split(None, 1)
                opts["lifts"][n_]["head"] = t_
            elif kw == "lift-mutrefs":
                parts_ = rest.split()
                opts["lifts"][parts_[0]]["mutrefs"] = parts_[1:]
            elif kw == "lift-contract":
                n_ = rest.rstrip(":").strip()
                cur = opts["lifts"][n_]["contract"]
            elif kw == "type":
                # type <local> <inttype> : hint for R1
                a, b = rest.split()
                opts["types"][a] = b
            elif kw == "contract:":
                cur = opts["contract"]
            elif kw == "body-prefix:":
                cur = opts["body_prefix"]
            elif kw in ("loop", "loop?"):
                k = int(rest.rstrip(":"))
                cur = opts["loops"].setdefault(k, [])
                if kw == "loop?":
                    opts.setdefault("loops_optional", set()).add(k)
            elif kw in ("before", "after", "before?", "after?"):
                m = re.match(r"^/(.*)/\s*(?:#(\d+))?\s*:$", rest)
                if not m:
                    raise UnitError("bad anchor: " + ln)
                cur = []
                opts[kw.rstrip("?")].append((m.group(1), int(m.group(2) or 0), cur, kw.endswith("?")))
            else:
                raise UnitError("unknown option: " + ln)
        else:
            if cur is None:
                raise UnitError("content line outside a section: " + ln)
            cur.append(ln[4:] if ln.startswith("    ") else ln)
    return opts


def _find_sig_parts(text, m_):
    """text = fn item text starting at (vis) fn ...; returns (fn_kw_off, brace_off)."""
    mfn = re.search(r"\bfn\b", m_)
    depth = 0
    j = mfn.end()
    while j < len(m_):
        c = m_[j]
        if c in "([":
            depth += 1
        elif c in ")]":
            depth -= 1
        elif c == "{" and depth == 0:
            return mfn.start(), j
        j += 1
    raise Unsupported("fn without body")


def _name_return(head, ret):
    """`-> T [where..]` => `-> (ret: T) [where..]` on masked-equivalent head."""
    hm = mask(head)
    # find `->` at paren depth 0 after the parameter list
    depth = 0
    i = hm.find("(")
    j = i
    arrow = None
    while j < len(hm):
        c = hm[j]
        if c in "([":
            depth += 1
        elif c in ")]":
            depth -= 1
        elif depth == 0 and hm.startswith("->", j):
            arrow = j
            break
        j += 1
    if arrow is None:
        return head, False
    # type ends at ` where ` (depth 0) or end
    k = arrow + 2
    depth = 0
    end = len(hm)
    mw = None
    while k < len(hm):
        c = hm[k]
        if c in "([<":
            depth += 1
        elif c in ")]>":
            if not (c == ">" and hm[k - 1] == "-"):
                depth -= 1
        elif depth == 0 and re.match(r"\bwhere\b", hm[k:k + 6]) and (k == 0 or not (hm[k - 1].isalnum() or hm[k - 1] == "_")):
            mw = k
            break
        k += 1
    tend = mw if mw is not None else end
    ty = head[arrow + 2:tend]
    ty_s = ty.strip()
    trail_ws = ty[len(ty.rstrip()):]
    new = head[:arrow] + "-> (" + ret + ": " + ty_s + ")" + trail_ws + head[tend:]
    return new, True


def _loop_sites(body, bm):
    """offsets of the `{` opening each loop body, in textual order of the loop keyword."""
    sites = []
    for m in re.finditer(r"\b(while|for|loop)\b", bm):
        # `for` in `for<'a>` or `impl .. for ..` is not expected inside bodies; skip `for<`
        after = bm[m.end():m.end() + 1]
        if m.group(1) == "for" and after == "<":
            continue
        depth = 0
        j = m.end()
        while j < len(bm):
            c = bm[j]
            if c in "([":
                depth += 1
            elif c in ")]":
                depth -= 1
            elif c == "{" and depth == 0:
                sites.append(j)
                break
            j += 1
    return sites


def _stmt_end(bm, off):
    depth = 0
    j = off
    while j < len(bm):
        c = bm[j]
        if c in "([{":
            depth += 1
        elif c in ")]}":
            if depth == 0:
                return j
            depth -= 1
        elif c == ";" and depth == 0:
            return j + 1
        j += 1
    return j


def _line_start(s, off):
    k = s.rfind("\n", 0, off)
    return k + 1


def build_fn(repo, file, path, opts, as_item=False):
    """Return (pieces, FnOut)."""
    src = Source(os.path.join(repo, file))
    it = src.find(path)
    fo = FnOut()
    fo.file = file
    fo.path = path
    fo.name = opts["rename"] or it.name
    fo.serves = opts["serves"]
    fo.nocanary = opts["nocanary"]
    fo.repo_line = src.line(it.start)
    log = fo.rewrites
    start = it.attr_start if opts["keep_attrs"] else it.start
    text = src.src[start:it.end]
    base_line = src.line(start)
    # R0 visibility
    text0 = text
    m0 = mask(text)
    mv = re.match(r"pub(?:\s*\([^)]*\))?\s+", m0[it.start - start:])
    if mv:
        a = it.start - start
        text = text[:a] + " " * (mv.end()) + text[a + mv.end():]
        log.append(("R0", "visibility stripped", 1))
    text = rule_R0(text, log)

    if it.kind != "fn":
        # struct / enum / const ...: strip field visibility + inner attributes
        m_ = mask(text)
        edits = []
        for m in re.finditer(r"\bpub(?:\s*\([^)]*\))?\s+", m_):
            edits.append((m.start(), m.end(), " " * (m.end() - m.start())))
        # inner attributes on fields/variants
        j = 0
        while True:
            k = m_.find("#", j)
            if k < 0:
                break
            q = k + 1
            while q < len(m_) and m_[q].isspace():
                q += 1
            if q < len(m_) and m_[q] == "[" and k >= (it.start - start):
                cl = match_brace(m_, q, "[", "]")
                seg = text[k:cl + 1]
                edits.append((k, cl + 1, re.sub(r"[^\n]", " ", seg)))
                j = cl + 1
            else:
                j = k + 1
        edits.sort()
        out = []
        pos = 0
        for a, b, r in edits:
            if a < pos:
                continue
            out.append(text[pos:a])
            out.append(r)
            pos = b
        out.append(text[pos:])
        text = "".join(out)
        if edits:
            log.append(("R0", "field visibility / inner attributes stripped", len(edits)))
        for (rule, pat, repl, opt) in opts["rw"]:
            text, n = _apply_rw(text, pat, repl)
            if n == 0 and not opt:
                raise LostAnchor("rewrite pattern /%s/ not found in %s :: %s" % (pat, file, path))
            if n:
                log.append((rule, "/%s/ => %s" % (pat, repl), n))
        if it.kind == "struct":
            for m in re.finditer(r"\b([a-z_][a-z0-9_]*)\s*:\s*(" + _INT_T + r")\s*,", mask(text)):
                FIELD_TYPES.setdefault(m.group(1), m.group(2))
        pieces = [Piece(a + "\n") for a in opts["attr"]]
        pieces.append(Piece(text + "\n", base_line))
        return pieces, fo

    # ---- fn ----
    m_ = mask(text)
    fn_off, brace = _find_sig_parts(text, m_)
    head = text[:brace]
    body = text[brace:]
    rules = opts["rules"]
    if "R6" in rules:
        head2 = re.sub(r"\basync\s+fn\b", "fn", head)
        if head2 != head:
            log.append(("R6", "async fn -> fn", 1))
            head = head2
        body = rule_R6(body, log)
    if "R10" in rules:
        head, body = rule_R10(head, body, log)
    if "R4" in rules:
        body = rule_R4(body, log)
    if "R2" in rules:
        body = rule_R2(body, log)
    if "R3" in rules:
        body = rule_R3(body, log)
    if "R1" in rules:
        lt = dict(opts["types"])
        # harvest parameter / let types of integer kind
        for m in re.finditer(r"\b([a-z_][a-z0-9_]*)\s*:\s*(" + _INT_T + r")\b", mask(head + body)):
            lt.setdefault(m.group(1), m.group(2))
        body = rule_R1(body, log, lt)
    for (rule, pat, repl, opt) in opts["sig"]:
        head, n = _apply_rw(head, pat, repl)
        if n == 0 and not opt:
            raise LostAnchor("signature pattern /%s/ not found in %s :: %s" % (pat, file, path))
        if n:
            log.append((rule, "sig /%s/ => %s" % (pat, repl), n))
    for (rule, pat, repl, opt) in opts["rw"]:
        body, n = _apply_rw(body, pat, repl)
        if n == 0 and not opt:
            raise LostAnchor("rewrite pattern /%s/ not found in %s :: %s" % (pat, file, path))
        if n:
            log.append((rule, "/%s/ => %s" % (pat, repl), n))
    lifted = []  # (name, head text, contract lines, body text, body offset line)
    for lname, L in opts.get("lifts", {}).items():
        bm0 = mask(body)
        mm = re.search(L["pat"], bm0)
        if not mm:
            raise LostAnchor("lift anchor /%s/ not found in %s :: %s" % (L["pat"], file, path))
        seg = bm0[mm.start():mm.end()]
        bo = mm.start() + seg.rindex("{")         # the closure / block body's `{`
        bc = match_brace(bm0, bo)
        if L.get("block"):
            po = bo                                   # a plain block expression `{ .. }`
            ma = re.search(r"\basync\s*$", bm0[mm.start():bo])
            if ma:
                po = mm.start() + ma.start()          # `async { .. }` (its .await was removed by R6)
            end = bc + 1
        elif L.get("closure_arg"):
            po = mm.start()                           # a closure literal passed as an argument
            end = bc + 1
        elif L.get("expr"):
            # an `if .. { } else if .. { } else { }` (or `match x { }`) expression starting at the pattern
            po = mm.start()
            end = bc + 1
            while True:
                me = re.match(r"\s*else\b[^{]*\{", bm0[end:])
                if not me:
                    break
                nb = end + me.end() - 1
                end = match_brace(bm0, nb) + 1
        else:
            po = mm.start() + seg.index("(")          # the `(` of `(|| ...`
            tail = re.match(r"\s*\)\s*\(\s*\)", bm0[bc + 1:])
            if not tail:
                raise Unsupported("R14: closure at /%s/ is not immediately invoked" % L["pat"])
            end = bc + 1 + tail.end()
        cbody = body[bo:bc + 1]
        if L.get("expr"):
            cbody = "{ " + body[po:end] + " }"
        for (rule_, pat_, repl_, opt_) in L.get("rw", []):
            cbody, n_ = _apply_rw(cbody, pat_, repl_)
            if n_ == 0 and opt_:
                continue
            if n_ == 0:
                raise LostAnchor("lift-rw pattern /%s/ not found in lifted %s of %s :: %s" % (pat_, lname, file, path))
            log.append((rule_, "[lifted %s] /%s/ => %s" % (lname, pat_, repl_), n_))
        for v in L["mutrefs"]:
            cm = mask(cbody)
            outp = []
            pos_ = 0
            for m2 in re.finditer(r"&mut\s+" + re.escape(v) + r"\b", cm):
                outp.append(cbody[pos_:m2.start()])
                outp.append("&mut *" + v)
                pos_ = m2.end()
            outp.append(cbody[pos_:])
            cbody = "".join(outp)
        nl = body[po:end].count("\n")
        lifted.append((lname, L, cbody, body[:bo].count("\n")))
        body = body[:po] + L["call"] + "\n" * nl + body[end:]
        log.append(("R14", "immediately-invoked closure lifted to fn %s (captures become parameters)" % lname, 1))
    if opts["rename"]:
        head = re.sub(r"\bfn\s+" + re.escape(it.name) + r"\b", "fn " + opts["rename"], head, count=1)
    head, _ = _name_return(head, opts["ret"])

    # splices in body
    bm = mask(body)
    inserts = []  # (offset in body, text, order)
    if opts["body_prefix"]:
        inserts.append((1, "\n" + "\n".join(opts["body_prefix"]) + "\n", 0))
    sites = _loop_sites(body, bm)
    for k, lines in opts["loops"].items():
        if k >= len(sites):
            if k in opts.get("loops_optional", ()):
                log.append(("note", "loop #%d absent: its invariant was not spliced (obligations of the fn decide)" % k, 1))
                continue
            raise LostAnchor("loop #%d not found in %s :: %s (has %d loops)" % (k, file, path, len(sites)))
        inserts.append((sites[k], "\n" + "\n".join(lines) + "\n", 1))
    for kind in ("before", "after"):
        for (pat, k, lines, optional) in opts[kind]:
            ms = list(re.finditer(pat, bm))
            if not ms:
                # try on raw text (patterns mentioning string contents)
                ms = list(re.finditer(pat, body))
            if k >= len(ms) and optional:
                log.append(("note", "optional ghost anchor /%s/ absent: hint not spliced" % pat, 1))
                continue
            if k >= len(ms):
                raise LostAnchor("anchor /%s/ #%d not found in %s :: %s" % (pat, k, file, path))
            if kind == "before":
                off = _line_start(body, ms[k].start())
                inserts.append((off, "\n".join(lines) + "\n", 2))
            else:
                off = _stmt_end(bm, ms[k].start())
                inserts.append((off, "\n" + "\n".join(lines) + "\n", 2))
    inserts.sort(key=lambda x: (x[0], x[2]))

    pieces = [Piece(a + "\n") for a in opts["attr"]]
    head_line = base_line
    pieces.append(Piece(head.rstrip() + "\n", head_line))
    if opts["contract"]:
        fo.has_contract = True
        pieces.append(Piece("\n".join(opts["contract"]) + "\n"))
        pieces.append(Piece("/*@canary-slot*/\n"))
    body_line = base_line + text0[:brace].count("\n") if False else base_line + text[:brace].count("\n")
    pos = 0
    for off, t, _ in inserts:
        seg = body[pos:off]
        if seg:
            pieces.append(Piece(seg, body_line + body[:pos].count("\n")))
        pieces.append(Piece(t))
        pos = off
    pieces.append(Piece(body[pos:] + "\n", body_line + body[:pos].count("\n")))
    extra = []
    for (lname, L, cbody, line_off) in lifted:
        f2 = FnOut()
        f2.file = file
        f2.path = path + " :: closure " + lname
        f2.name = lname
        f2.serves = opts["serves"]
        f2.repo_line = body_line + line_off
        f2.has_contract = bool(L["contract"])
        p2 = [Piece(L["head"].rstrip() + "\n")]
        if L["contract"]:
            p2.append(Piece("\n".join(L["contract"]) + "\n"))
            p2.append(Piece("/*@canary-slot*/\n"))
        p2.append(Piece(cbody + "\n", body_line + line_off))
        extra.append((p2, f2))
    fo.extra = extra
    return pieces, fo


def _apply_rw(text, pat, repl):
    n = 0

    def sub(m):
        nonlocal n
        n += 1
        r = m.expand(repl)
        nl = m.group(0).count("\n") - r.count("\n")
        return r + ("\n" * nl if nl > 0 else "")
    out = re.sub(pat, sub, text, flags=re.S)
    return out, n


class Unit:
    def __init__(self, name):
        self.name = name
        self.text = ""
        self.fns = []          # FnOut
        self.linemap = {}      # gen line -> (file, repo line)
        self.tags = {}         # gen line -> (props, obname)
        self.rewrites = []     # (where, rule, what, n)
        self.trusted = []      # declared assumptions: text lines after `//@ trusted`
        self.canaries = []     # (fn name, canary spec name)

    def fn_at(self, line):
        for f in self.fns:
            if f.line_start <= line <= f.line_end:
                return f
        return None


_TAG = re.compile(r"//\s*@ob\s+([C0-9, ]+?)\s+([A-Za-z0-9_.\-@:/]+)\s*$")


def assemble(unit_path, repo, units_root):
    name = os.path.splitext(os.path.basename(unit_path))[0]
    u = Unit(name)
    FIELD_TYPES.clear()
    raw = open(unit_path, encoding="utf-8").read().split("\n")
    out_pieces = []  # (Piece, FnOut or None, file)
    i = 0

    def expand_includes(lines):
        res = []
        for ln in lines:
            m = re.match(r"^//@ include (\S+)\s*$", ln)
            if m:
                inc = open(os.path.join(units_root, m.group(1)), encoding="utf-8").read().split("\n")
                res.extend(expand_includes(inc))
            else:
                res.append(ln)
        return res
    raw = expand_includes(raw)
    while i < len(raw):
        ln = raw[i]
        if ln.startswith("//@ trusted "):
            u.trusted.append(ln[len("//@ trusted "):].strip())
            i += 1
            continue
        m = re.match(r"^//@ (item|fn)\s+(\S+)\s+::\s+(.*?)\s*(\{)?\s*$", ln)
        if m:
            kind, file, path, blk = m.group(1), m.group(2), m.group(3), m.group(4)
            block = []
            i += 1
            if blk:
                while i < len(raw) and not raw[i].startswith("//@ }"):
                    block.append(raw[i])
                    i += 1
                if i >= len(raw):
                    raise UnitError("unterminated block for " + path)
                i += 1
            opts = _parse_block(block)
            try:
                pieces, fo = build_fn(repo, file, path, opts)
            except LostAnchor as e:
                # `absent-ok`: a helper that an edit may legitimately fold back into its caller; the caller's own
                # obligations then decide (its rewrites of the inlined form are optional `rw?` lines)
                if opts.get("absent_ok") and "item not found" in str(e):
                    u.rewrites.append(("%s :: %s" % (file, path), "note", "item absent: skipped (its caller's obligations decide)", 1))
                    continue
                raise
            for (rule, what, n) in fo.rewrites:
                u.rewrites.append(("%s :: %s" % (file, path), rule, what, n))
            if not opts.get("omit_shell"):
                for p in pieces:
                    out_pieces.append((p, fo if kind == "fn" else None, file))
            else:
                u.rewrites.append(("%s :: %s" % (file, path), "R14", "enclosing task body not emitted (only the lifted expression is verified)", 1))
            if kind == "fn":
                if not opts.get("omit_shell"):
                    u.fns.append(fo)
                for (p2, f2) in getattr(fo, "extra", []):
                    for p in p2:
                        out_pieces.append((p, f2, file))
                    u.fns.append(f2)
            continue
        if ln.startswith("//@"):
            if ln.startswith("//@ unit") or ln.startswith("//@ note"):
                i += 1
                continue
            raise UnitError("unknown directive: " + ln)
        out_pieces.append((Piece(ln + "\n"), None, None))
        i += 1

    # linearise
    line = 1
    texts = []
    cur_fn = None
    for (p, fo, file) in out_pieces:
        t = p.text
        if fo is not None and fo.line_start is None:
            fo.line_start = line
        nlines = t.count("\n")
        if p.orig_line is not None:
            # map each generated line of this piece to its repo line
            for k, l in enumerate(t.split("\n")):
                if l.strip():
                    u.linemap.setdefault(line + k, (file, p.orig_line + k))
        else:
            for k, l in enumerate(t.split("\n")):
                mt = _TAG.search(l)
                if mt:
                    props = [x for x in re.split(r"[ ,]+", mt.group(1)) if x]
                    u.tags[line + k] = (props, mt.group(2))
        texts.append(t)
        line += nlines
        if fo is not None:
            fo.line_end = line - 1 if t.endswith("\n") else line
    u.text = "".join(texts)
    return u


def canary_text(u):
    """Variant of the unit text with an unprovable, harmless extra postcondition per fn."""
    decls = []
    k = 0
    parts = u.text.split("/*@canary-slot*/")
    fns = [f for f in u.fns if f.has_contract]
    assert len(parts) == len(fns) + 1, (len(parts), len(fns))
    out = [parts[0]]
    names = []
    for f, rest in zip(fns, parts[1:]):
        nm = "canary_%d_%s" % (k, re.sub(r"\W", "_", f.name))
        k += 1
        names.append((f, nm))
        prev = out[-1]
        # does the contract already have an ensures clause?  look back to the fn head
        seg = prev[prev.rfind("\nfn ") if "\nfn " in prev else 0:]
        has_ens = re.search(r"\bensures\b", mask(_last_contract(prev))) is not None
        mc = mask(_last_contract(prev)).rstrip()
        if has_ens:
            if not mc.endswith(","):
                raise UnitError("contract of %s must end with a trailing comma" % f.name)
            out.append("    %s(), /*@canary %s*/" % (nm, f.name))
        else:
            out.append("    ensures %s(), /*@canary %s*/" % (nm, f.name))
        out.append(rest)
    text = "".join(out)
    decl = "".join("pub uninterp spec fn %s() -> bool;\n" % nm for _, nm in names)
    # put declarations right after the first `verus! {`
    idx = text.find("verus! {")
    idx = text.find("\n", idx) + 1
    text = text[:idx] + decl + text[idx:]
    return text, names, decl.count("\n")


def _last_contract(prev):
    """text of the contract block that ends `prev` (from the last fn keyword)."""
    m = None
    for m in re.finditer(r"\bfn\b", mask(prev)):
        pass
    return prev[m.start():] if m else prev
