#!/usr/bin/env python3
"""Take a sub-agent's output directory (/tmp/seedout/<tag>/{1,2,3}) into seeded/_candidates/<Cxx>/<next k>, remove its
scratch worktree, and run the property's quick check against each change (tools/try_patch.sh).
usage: tools/intake.py <Cxx> <tag>        e.g. tools/intake.py C03 C03e"""
import glob, os, re, shutil, subprocess, sys
pid, tag = sys.argv[1], sys.argv[2]
src = "/tmp/seedout/" + tag
existing = [int(os.path.basename(d).split("-")[1]) for d in glob.glob("/verif/seeded/%s-[0-9]*" % pid)]
existing += [int(os.path.basename(d)) for d in glob.glob("/verif/seeded/_candidates/%s/[0-9]*" % pid)]
k = max(existing + [0])
subprocess.run(["git", "-C", "/repo", "worktree", "remove", "--force", "/tmp/wt/" + tag], capture_output=True)
for d in sorted(glob.glob(src + "/[0-9]*")):
    if not os.path.exists(d + "/patch.diff") or not os.path.exists(d + "/demo.rs"):
        print("skip (incomplete):", d); continue
    k += 1
    dst = "/verif/seeded/_candidates/%s/%d" % (pid, k)
    os.makedirs(dst, exist_ok=True)
    for f in ("patch.diff", "demo.rs", "meta.json"):
        if os.path.exists(d + "/" + f):
            shutil.copy(d + "/" + f, dst + "/" + f)
    p = subprocess.run(["/verif/tools/try_patch.sh", dst + "/patch.diff", pid], capture_output=True, text=True)
    lines = [l for l in p.stdout.splitlines() if re.match(r"^(VIOLATION|OK |UNDECIDED|PATCH|KNOWN)", l)]
    print("%s/%d rc=%s  %s" % (pid, k, p.returncode, " | ".join(l[:150] for l in lines[:2])), flush=True)
