use vstd::prelude::*;
verus! {
pub struct RepeError { pub retryable: bool }
pub struct Value;
pub struct Node { pub ghost_attempts: Ghost<nat>, pub connected: bool }
pub struct Client;
impl Node {
  pub closed spec fn attempts(&self) -> nat { self.ghost_attempts@ }
}
#[verifier::external_body]
fn ensure_connected(node: &mut Node) -> (r: Result<Client, RepeError>)
  ensures final(node).attempts() == old(node).attempts() + 1
{ unimplemented!() }
#[verifier::external_body]
fn call_json(c: &Client) -> (r: Result<Value, RepeError>) { unimplemented!() }
#[verifier::external_body]
fn invalidate_client(node: &mut Node) ensures !final(node).connected, final(node).attempts() == old(node).attempts() { unimplemented!() }
fn is_retryable_error(e: &RepeError) -> (r: bool) ensures r == e.retryable { e.retryable }
#[verifier::external_body]
fn sleep() {}

fn call_json_with_retry(node: &mut Node, max_attempts: u32) -> (r: (Option<Value>, Option<RepeError>))
   ensures final(node).attempts() <= old(node).attempts() + max_attempts,
{
        let mut last_error = None;

        for attempt in 0..max_attempts
            invariant node.attempts() == old(node).attempts() + attempt
        {
            let call = (|| {
                let client = ensure_connected(node)?;
                call_json(&client)
            })();

            match call {
                Ok(value) => {
                    return (Some(value), None);
                }
                Err(err) => {
                    let should_retry = is_retryable_error(&err);
                    last_error = Some(err);

                    if should_retry {
                        invalidate_client(node);
                        if attempt + 1 < max_attempts {
                            sleep();
                        }
                    } else {
                        break;
                    }
                }
            }
        }
        (None, last_error)
}
} // verus!
fn main() {}
