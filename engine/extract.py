"""Locate items in a Rust source file by path, never by line number.

Path syntax (segments separated by ' :: '):
    struct Header | enum RepeError | const HEADER_SIZE | type X | fn read_exact
    impl Header :: fn encode
    impl<'a> MessageView<'a> :: fn from_slice
    impl Drop for TempFile :: fn drop
    mod inner :: fn f
`impl` segments are compared after removing all whitespace.
Items inside `#[cfg(test)]` modules are invisible.
"""
import re
from .lex import mask, match_brace, line_of


class LostAnchor(Exception):
    pass


_KW = re.compile(
    r"(?:pub(?:\s*\([^)]*\))?\s+)?"
    r"(?:(?:default|async|const|unsafe|extern\s+\"[^\"]*\")\s+)*"
    r"\b(fn|struct|enum|union|impl|mod|const|static|type|trait|use|macro_rules!|extern\s+crate)\b"
)


class Item:
    __slots__ = ("kind", "name", "start", "attr_start", "head_end", "end",
                 "has_body", "attrs", "header")

    def __repr__(self):
        return "<%s %s %d..%d>" % (self.kind, self.name, self.start, self.end)


def _skip_ws(m, i, end):
    while i < end and m[i].isspace():
        i += 1
    return i


def scan_items(src, m, start, end):
    """Yield Items found at nesting depth 0 of m[start:end]."""
    i = start
    items = []
    while True:
        i = _skip_ws(m, i, end)
        if i >= end:
            break
        attr_start = i
        attrs = []
        # outer attributes
        while m.startswith("#", i):
            j = i + 1
            if j < end and m[j] == "!":
                j += 1
            j = _skip_ws(m, j, end)
            if j < end and m[j] == "[":
                k = match_brace(m, j, "[", "]")
                attrs.append(src[i:k + 1])
                i = _skip_ws(m, k + 1, end)
            else:
                break
        if i >= end:
            break
        mt = _KW.match(m, i)
        if not mt:
            # unknown token sequence (macro invocation etc.): skip to ; or matching }
            j = i
            depth = 0
            while j < end:
                c = m[j]
                if c in "([":
                    depth += 1
                elif c in ")]":
                    depth -= 1
                elif c == "{" and depth == 0:
                    j = match_brace(m, j)
                    # macro invocation `foo! { }` has no trailing ;
                    break
                elif c == ";" and depth == 0:
                    break
                j += 1
            i = j + 1
            continue
        it = Item()
        it.attr_start = attr_start
        it.attrs = attrs
        it.start = i
        it.kind = re.sub(r"\s+", " ", mt.group(1))
        # find end of header: first { or ; at ()[] depth 0 (angle brackets ignored)
        j = mt.end()
        depth = 0
        head_end = None
        while j < end:
            c = m[j]
            if c in "([":
                depth += 1
            elif c in ")]":
                depth -= 1
            elif c == "{" and depth == 0:
                head_end = j
                break
            elif c == ";" and depth == 0:
                head_end = j
                break
            j += 1
        if head_end is None:
            raise ValueError("unterminated item at offset %d" % i)
        it.head_end = head_end
        it.header = src[i:head_end]
        if m[head_end] == "{":
            close = match_brace(m, head_end)
            it.has_body = True
            it.end = close + 1
            if it.kind in ("const", "static", "type", "use"):
                # `const X: T = { .. };` or `const X: T = Foo { .. };`
                k = close + 1
                d = 0
                while k < end:
                    c = m[k]
                    if c in "([{":
                        d += 1
                    elif c in ")]}":
                        d -= 1
                    elif c == ";" and d == 0:
                        break
                    k += 1
                it.end = k + 1
                it.has_body = False
        else:
            it.has_body = False
            it.end = head_end + 1
        hdr_m = m[mt.end():head_end]
        if it.kind == "impl":
            it.name = re.sub(r"\s+", "", "impl" + hdr_m.split(" where ")[0].split("\nwhere")[0])
        else:
            nm = re.match(r"\s*([A-Za-z_][A-Za-z0-9_]*)", hdr_m)
            it.name = nm.group(1) if nm else ""
        items.append(it)
        i = it.end
    return items


def _is_cfg_test(attrs):
    for a in attrs:
        if re.sub(r"\s+", "", a) in ("#[cfg(test)]", "#[cfg(all(test))]"):
            return True
    return False


class Source:
    def __init__(self, path, text=None):
        self.path = path
        self.src = text if text is not None else open(path, encoding="utf-8").read()
        self.m = mask(self.src)

    def find(self, item_path):
        segs = [s.strip() for s in re.split(r"\s+::\s+", item_path) if s.strip()]
        # re-join generic args that contain '::' is not supported; impl headers must not contain '::'
        lo, hi = 0, len(self.src)
        it = None
        for seg in segs:
            parts = seg.split(None, 1)
            kind = parts[0]
            want = parts[1] if len(parts) > 1 else ""
            if kind == "impl" or kind.startswith("impl<"):
                kind = "impl"
                wantn = re.sub(r"\s+", "", seg)
            else:
                wantn = want.strip()
            cands = [x for x in scan_items(self.src, self.m, lo, hi)
                     if x.kind == kind and x.name == wantn and not _is_cfg_test(x.attrs)]
            if not cands:
                raise LostAnchor("item not found: %s (segment %r) in %s" % (item_path, seg, self.path))
            if len(cands) > 1 and kind != "impl":
                # cfg-duplicated items: take the first, report
                pass
            if kind == "impl" and len(cands) > 1 and seg is not segs[-1]:
                # several impl blocks with the same header: pick the one containing the next segment
                nxt = segs[segs.index(seg) + 1]
                nparts = nxt.split(None, 1)
                chosen = None
                for c in cands:
                    inner = scan_items(self.src, self.m, c.head_end + 1, c.end - 1)
                    if any(x.kind == nparts[0] and x.name == nparts[1].strip() for x in inner):
                        chosen = c
                        break
                if chosen is None:
                    raise LostAnchor("item not found: %s" % item_path)
                it = chosen
            else:
                it = cands[0]
            if it.has_body:
                lo, hi = it.head_end + 1, it.end - 1
        return it

    def line(self, off):
        return line_of(self.src, off)
