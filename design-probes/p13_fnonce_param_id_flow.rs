use vstd::prelude::*;
verus! {
pub struct RepeError;
pub struct Header { pub id: u64, pub version: u8, pub ec: u32 }
pub struct Message { pub header: Header, pub body: Vec<u8> }
pub struct MessageBuilder { pub id: u64 }
impl MessageBuilder {
    fn id(self, id: u64) -> (r: Self) ensures r.id == id { let mut self_ = self; self_.id = id; self_ }
    fn build(self) -> (m: Message) ensures m.header.id == self.id { Message { header: Header { id: self.id, version: 1, ec: 0 }, body: Vec::new() } }
}
pub struct Chan;
impl Chan {
    #[verifier::external_body]
    fn recv(&self) -> (r: Result<Message, RepeError>) { unimplemented!() }
}
#[verifier::external_body]
fn next_request_id() -> u64 { unimplemented!() }
#[verifier::external_body]
fn write_request(m: &Message) -> Result<(), RepeError> { unimplemented!() }

fn validate_response(expected_id: u64, resp: Message) -> (r: Result<Message, RepeError>)
    ensures r matches Ok(m) ==> m.header.id == expected_id
{
    if resp.header.version != 1 { return Err(RepeError); }
    if resp.header.id != expected_id { return Err(RepeError); }
    Ok(resp)
}

fn call_with_body_and_timeout<F>(chan: &Chan, body_fn: F) -> (r: Result<Message, RepeError>)
    where F: FnOnce(MessageBuilder) -> Result<MessageBuilder, RepeError>,
    requires forall|b: MessageBuilder| body_fn.requires((b,)),
             forall|b: MessageBuilder, o: Result<MessageBuilder, RepeError>| body_fn.ensures((b,), o) ==> (o matches Ok(b2) ==> b2.id == b.id),
{
    let id = next_request_id();
    let builder = MessageBuilder { id: 0 }.id(id);
    let msg = body_fn(builder)?.build();
    assert(msg.header.id == id);
    write_request(&msg)?;
    let resp = chan.recv()?;
    validate_response(id, resp)
}
} // verus!
fn main() {}
