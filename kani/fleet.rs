// Kani: complete (loop-free) classification check of is_retryable_error on the real function.
// Mounted as a child module of src/fleet.rs and of src/async_fleet.rs.
use super::is_retryable_error;
use crate::constants::{BodyFormat, ErrorCode};
use crate::error::RepeError;
use std::io::ErrorKind;

fn any_code() -> ErrorCode {
    match kani::any::<u8>() % 11 {
        0 => ErrorCode::Ok,
        1 => ErrorCode::VersionMismatch,
        2 => ErrorCode::InvalidHeader,
        3 => ErrorCode::InvalidQuery,
        4 => ErrorCode::InvalidBody,
        5 => ErrorCode::ParseError,
        6 => ErrorCode::MethodNotFound,
        7 => ErrorCode::Timeout,
        8 => ErrorCode::ResourceExhausted,
        9 => ErrorCode::InternalError,
        _ => ErrorCode::ApplicationErrorBase,
    }
}

#[kani::proof]
fn retryable_classification() {
    // 1. a reply of any kind (application error with any code) and every non-I/O error is never retried
    let which: u8 = kani::any();
    let e = match which % 10 {
        0 => RepeError::VersionMismatch(kani::any()),
        1 => RepeError::InvalidSpec(kani::any()),
        2 => RepeError::InvalidHeaderLength(kani::any()),
        3 => RepeError::LengthMismatch { expected: kani::any(), got: kani::any() },
        4 => RepeError::BufferTooSmall { need: kani::any(), have: kani::any() },
        5 => RepeError::ResponseIdMismatch { expected: kani::any(), got: kani::any() },
        6 => RepeError::UnknownEnumValue(kani::any()),
        7 => RepeError::UnexpectedBodyFormat { expected: BodyFormat::Json, got: kani::any() },
        8 => RepeError::ServerError { code: any_code(), message: String::new() },
        _ => RepeError::MessageTooLarge { size: kani::any(), limit: kani::any() },
    };
    assert!(!is_retryable_error(&e));
    // 2. every failure a dead / unreachable / silent node produces through the clients is retried
    let k = match kani::any::<u8>() % 7 {
        0 => ErrorKind::BrokenPipe,        // write on a connection that died while idle
        1 => ErrorKind::ConnectionReset,
        2 => ErrorKind::NotConnected,
        3 => ErrorKind::ConnectionAborted, // response channel closed
        4 => ErrorKind::TimedOut,          // request timeout
        5 => ErrorKind::UnexpectedEof,     // accepted then closed
        _ => ErrorKind::ConnectionRefused,
    };
    let io = RepeError::Io(std::io::Error::from(k));
    kani::cover!(true, "transport kinds reachable");
    assert!(is_retryable_error(&io));
}
