use vstd::prelude::*;
use vstd::bytes::*;
verus! {

pub const HEADER_SIZE: usize = 48;

#[verifier::external_body]
fn le_bytes_u64(x: u64) -> (r: [u8; 8])
    ensures r@ == spec_u64_to_le_bytes(x)
{ x.to_le_bytes() }
#[verifier::external_body]
fn le_bytes_u16(x: u16) -> (r: [u8; 2])
    ensures r@ == spec_u16_to_le_bytes(x)
{ x.to_le_bytes() }

pub struct Header {
    pub length: u64,
    pub spec: u16,
    pub version: u8,
}

impl Header {
    pub fn encode(&self) -> (r: [u8; HEADER_SIZE])
      ensures r@.subrange(0,8) == spec_u64_to_le_bytes(self.length),
              r@.subrange(8,10) == spec_u16_to_le_bytes(self.spec),
              r@[10] == self.version,
    {
        let mut buf = [0u8; HEADER_SIZE];
        let mut o = 0;

        buf[o..o + 8].copy_from_slice(&le_bytes_u64(self.length));
        o += 8;
        buf[o..o + 2].copy_from_slice(&le_bytes_u16(self.spec));
        o += 2;
        buf[o] = self.version;
        o += 1;
        buf
    }
}

} // verus!
fn main() {}
