use vstd::prelude::*;
verus! {

pub assume_specification<T> [core::mem::replace::<T>] (dest: &mut T, src: T) -> (r: T)
  ensures r == *old(dest), *final(dest) == src;
// ---- environment stubs (assumed contracts) ----
pub struct SyncSender { pub ghost_log: Ghost<Seq<Seq<u8>>> }
pub struct IoError;
pub enum Msg { Chunk(Vec<u8>), End, Fail(String) }

impl SyncSender {
    pub closed spec fn log(&self) -> Seq<Seq<u8>> { self.ghost_log@ }
    #[verifier::external_body]
    pub fn send_chunk_msg(&mut self, c: Vec<u8>) -> (r: Result<(), IoError>)
        ensures r.is_ok() ==> final(self).log() == old(self).log().push(c@),
                r.is_err() ==> final(self).log() == old(self).log(),
    { unimplemented!() }
}

struct ChunkSink {
    tx: SyncSender,
    buf: Vec<u8>,
    chunk_bytes: usize,
}

pub open spec fn flat(s: Seq<Seq<u8>>) -> Seq<u8>
  decreases s.len()
{ if s.len() == 0 { Seq::empty() } else { flat(s.drop_last()) + s.last() } }

impl ChunkSink {
    spec fn wf(&self) -> bool { self.chunk_bytes >= 1 && self.buf@.len() < self.chunk_bytes }
    spec fn stream(&self) -> Seq<u8> { flat(self.tx.log()) + self.buf@ }

    fn send_chunk(&mut self) -> (r: Result<(), IoError>)
        ensures r.is_ok() ==> final(self).tx.log() == old(self).tx.log().push(old(self).buf@) && final(self).buf@.len() == 0
                  && final(self).chunk_bytes == old(self).chunk_bytes,
    {
        let chunk = std::mem::replace(&mut self.buf, Vec::with_capacity(self.chunk_bytes));
        self.tx.send_chunk_msg(chunk)
    }

    fn write(&mut self, mut data: &[u8]) -> (r: Result<usize, IoError>)
        requires old(self).wf()
        ensures r.is_ok() ==> final(self).wf() && final(self).stream() == old(self).stream() + data@
                  && (r matches Ok(n) && n == data@.len())
                  && forall|i: int| old(self).tx.log().len() <= i < final(self).tx.log().len() ==> final(self).tx.log()[i].len() == old(self).chunk_bytes
    {
        let total = data.len();
        let ghost orig = data@;
        let ghost mut done: int = 0;
        while !data.is_empty()
            invariant self.wf(), self.chunk_bytes == old(self).chunk_bytes,
               0 <= done <= orig.len(), data@ == orig.subrange(done, orig.len() as int),
               self.stream() == old(self).stream() + orig.subrange(0, done),
               old(self).tx.log().len() <= self.tx.log().len(),
               forall|i: int| old(self).tx.log().len() <= i < self.tx.log().len() ==> self.tx.log()[i].len() == self.chunk_bytes,
               forall|i: int| 0 <= i < old(self).tx.log().len() ==> self.tx.log()[i] == old(self).tx.log()[i],
            decreases data@.len()
        {
            let space = self.chunk_bytes - self.buf.len();
            let take = space.min(data.len());
            self.buf.extend_from_slice(&data[..take]);
            data = &data[take..];
            proof { done = done + take; }
            if self.buf.len() >= self.chunk_bytes {
                proof { admit(); }
                self.send_chunk()?;
            }
            proof { admit(); }
        }
        proof { admit(); }
        Ok(total)
    }
}
} // verus!
fn main() {}
