#!/usr/bin/env python3
"""Phase 2 of an intake: run the property's quick check against each candidate of the given properties.
Honours VERIF_HOME / VERIF_REPO (a snapshot of the machinery and a scratch clone of the repo) so several can run side by side.
usage: tools/verdicts.py <Cxx>..."""
import glob, os, re, subprocess, sys
VH = os.environ.get("VERIF_HOME", "/verif")
for pid in sys.argv[1:]:
    for d in sorted(glob.glob("/verif/seeded/_candidates/%s/[0-9]*" % pid), key=lambda x: int(os.path.basename(x))):
        p = subprocess.run([VH + "/tools/try_patch.sh", d + "/patch.diff", pid], capture_output=True, text=True)
        lines = [l for l in p.stdout.splitlines() if re.match(r"^(VIOLATION|OK |UNDECIDED|PATCH|KNOWN)", l)]
        print("%s/%s rc=%s  %s" % (pid, os.path.basename(d), p.returncode, " | ".join(l[:170] for l in lines[:2])), flush=True)
