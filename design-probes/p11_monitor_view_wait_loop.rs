use vstd::prelude::*;
verus! {
// ---- env ----
#[derive(Clone, Copy)]
pub struct Instant { pub t: u64 }
#[derive(Clone, Copy)]
pub struct Duration { pub d: u64 }
pub struct WaitTimeoutResult;
#[derive(Debug)]
pub struct Poison;
pub struct Clock;
#[verifier::external_body]
fn instant_now() -> Instant { unimplemented!() }
impl Instant {
    fn ge(&self, o: &Instant) -> (r: bool) ensures r == (self.t >= o.t) { self.t >= o.t }
    fn sub(&self, o: &Instant) -> (r: Duration) requires self.t >= o.t { Duration { d: self.t - o.t } }
}
pub enum CreditError { Cancelled(String), Timeout }

pub struct Inner {
    pub window_bytes: u64,
    pub sent_offset: u64,
    pub acked_offset: u64,
    pub cancelled: Option<String>,
}
pub open spec fn inv(g: Inner) -> bool { g.acked_offset <= g.sent_offset }
pub open spec fn credit_ready(g: Inner, c: u64) -> bool {
    g.sent_offset - g.acked_offset == 0 || (g.sent_offset - g.acked_offset) + c <= g.window_bytes
}
pub struct Cv { pub notified: Ghost<bool> }
impl Cv {
    #[verifier::external_body]
    fn wait_timeout<'a>(&self, g: &'a mut Inner, d: Duration) -> (r: Result<(&'a mut Inner, WaitTimeoutResult), Poison>)
        requires inv(*old(g))
        ensures r.is_ok(), inv(*r.unwrap().0),
           old(g).cancelled.is_some() ==> r.unwrap().0.cancelled == old(g).cancelled,
    { unimplemented!() }
}
#[verifier::external_body]
fn expect_ok<T>(r: Result<T, Poison>, msg: &str) -> (v: T) requires r.is_ok() ensures v == r.unwrap() { unimplemented!() }
#[verifier::external_body]
fn clone_opt(s: &Option<String>) -> (r: Option<String>) ensures r == *s { unimplemented!() }

#[verifier::exec_allows_no_decreases_clause]
fn wait_for_credit(cv: &Cv, mut guard: &mut Inner, chunk_len: u64, deadline: Instant) -> (r: Result<(), CreditError>)
    requires inv(*old(guard)), chunk_len <= 0x1_0000_0000_0000
{
        loop
            invariant inv(*guard)
        {
            if let Some(reason) = clone_opt(&guard.cancelled) {
                return Err(CreditError::Cancelled(reason));
            }
            let in_flight = guard.sent_offset.saturating_sub(guard.acked_offset);
            if in_flight == 0 || in_flight + chunk_len <= guard.window_bytes {
                return Ok(());
            }
            let now = instant_now();
            if now.ge(&deadline) {
                return Err(CreditError::Timeout);
            }
            let timeout = deadline.sub(&now);
            let (g, _) = expect_ok(cv.wait_timeout(guard, timeout), "TransferControl mutex poisoned");
            guard = g;
        }
}
} // verus!
fn main() {}
