"""Rust-aware masking lexer.

mask(src) returns a string of the same length as src in which the *contents*
of comments, string / raw-string / byte-string literals and char literals are
replaced by spaces (newlines kept), so that brace matching and pattern search
see code only.  Lifetimes ('a) are kept as they are.
comment_mask(src) additionally reports which offsets are comment text.
"""
import re

_IDENT = re.compile(r"[A-Za-z_][A-Za-z0-9_]*")


def mask(src, keep_strings=False):
    out = list(src)
    n = len(src)
    i = 0

    def blank(a, b):
        for k in range(a, b):
            if out[k] != "\n":
                out[k] = " "

    while i < n:
        c = src[i]
        if c == "/" and i + 1 < n and src[i + 1] == "/":
            j = src.find("\n", i)
            if j < 0:
                j = n
            blank(i, j)
            i = j
        elif c == "/" and i + 1 < n and src[i + 1] == "*":
            depth = 1
            j = i + 2
            while j < n and depth:
                if src.startswith("/*", j):
                    depth += 1
                    j += 2
                elif src.startswith("*/", j):
                    depth -= 1
                    j += 2
                else:
                    j += 1
            blank(i, j)
            i = j
        elif c == '"' or (c in "br" and _is_str_start(src, i)):
            j = _skip_string(src, i)
            if not keep_strings:
                # keep the delimiters' first and last char so the token stays a token
                blank(i + 1, j - 1)
                if src[i] != '"':
                    out[i] = '"'
            i = j
        elif c == "'":
            # char literal or lifetime
            j = _char_end(src, i)
            if j is not None:
                if not keep_strings:
                    blank(i + 1, j - 1)
                i = j
            else:
                i += 1
        else:
            m = _IDENT.match(src, i)
            if m:
                i = m.end()
            else:
                i += 1
    return "".join(out)


def _is_str_start(src, i):
    # b"..", br".." , r"..", r#".."#, br#".."#, b'x' handled elsewhere
    if i > 0 and (src[i - 1].isalnum() or src[i - 1] == "_"):
        return False
    m = re.match(r'(b?r#*"|b")', src[i:i + 40])
    return bool(m)


def _skip_string(src, i):
    n = len(src)
    m = re.match(r'(b?)(r?)(#*)"', src[i:i + 40])
    raw = m.group(2) == "r"
    hashes = m.group(3)
    j = i + m.end()
    if raw:
        end = '"' + hashes
        k = src.find(end, j)
        return n if k < 0 else k + len(end)
    while j < n:
        if src[j] == "\\":
            j += 2
        elif src[j] == '"':
            return j + 1
        else:
            j += 1
    return n


def _char_end(src, i):
    """src[i] == "'" ; return end offset if this is a char literal, else None."""
    n = len(src)
    if i + 1 >= n:
        return None
    if src[i + 1] == "\\":
        j = i + 2
        # escape: \n \' \\ \x41 \u{...}
        if j < n and src[j] == "u":
            k = src.find("}", j)
            j = k + 1 if k >= 0 else j + 1
        elif j < n and src[j] == "x":
            j += 3
        else:
            j += 1
        if j < n and src[j] == "'":
            return j + 1
        return None
    # 'x' where x is one char (may be multi-byte; python str is by code point)
    if i + 2 < n and src[i + 2] == "'" and src[i + 1] != "'":
        return i + 3
    return None


def match_brace(masked, i, open_ch="{", close_ch="}"):
    """masked[i] == open_ch; return offset of the matching close_ch."""
    depth = 0
    n = len(masked)
    j = i
    while j < n:
        c = masked[j]
        if c == open_ch:
            depth += 1
        elif c == close_ch:
            depth -= 1
            if depth == 0:
                return j
        j += 1
    raise ValueError("unbalanced %s at %d" % (open_ch, i))


def line_of(src, off):
    return src.count("\n", 0, off) + 1
