#![feature(allocator_api)]
use vstd::prelude::*;
verus! {
pub const HEADER_SIZE: usize = 48;

pub assume_specification<T, A: std::alloc::Allocator> [std::vec::Vec::<T, A>::capacity] (v: &std::vec::Vec<T, A>) -> (r: usize)
  ensures r >= v@.len();
pub struct Header { pub id: u64 }
impl Header {
    #[verifier::external_body]
    pub fn encode(&self) -> (r: [u8; HEADER_SIZE]) { [0u8; HEADER_SIZE] }
}
pub struct Message {
    pub header: Header,
    pub query: Vec<u8>,
    pub body: Vec<u8>,
}
impl Message {
    pub fn to_vec(&self) -> Vec<u8> {
        let mut out = Vec::with_capacity(HEADER_SIZE + self.query.len() + self.body.len());
        out.extend_from_slice(&self.header.encode());
        if !self.query.is_empty() {
            out.extend_from_slice(&self.query);
        }
        if !self.body.is_empty() {
            out.extend_from_slice(&self.body);
        }
        out
    }
    pub fn into_wire_bytes(self) -> Vec<u8> {
        let Self {
            header,
            query,
            mut body,
        } = self;
        let prefix_len = HEADER_SIZE + query.len();
        let body_len = body.len();
        let total = prefix_len + body_len;

        if body.capacity() >= total {
            body.resize(total, 0);
            if body_len > 0 {
                body.copy_within(0..body_len, prefix_len);
            }
            body[..HEADER_SIZE].copy_from_slice(&header.encode());
            if !query.is_empty() {
                body[HEADER_SIZE..prefix_len].copy_from_slice(&query);
            }
            body
        } else {
            let mut out = Vec::with_capacity(total);
            out.extend_from_slice(&header.encode());
            if !query.is_empty() {
                out.extend_from_slice(&query);
            }
            if body_len > 0 {
                out.append(&mut body);
            }
            out
        }
    }
}
} // verus!
fn main() {}
