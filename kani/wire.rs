// Kani harnesses for unit `wire` (C01, C02). Mounted as a child module of
// src/message.rs in a scratch copy of the crate; the code under test is the
// repository's real code.
use crate::header::Header;
use crate::message::{Message, MessageView};

// ---- discharge of the R1 wrapper contracts used by the Verus unit -------------
// vstd: spec_uN_to_le_bytes(x)[i] == ((x >> 8*i) & 0xff) as u8 ; from_le is its inverse.
#[kani::proof]
fn r1_le_bytes_u64() {
    let x: u64 = kani::any();
    let b = x.to_le_bytes();
    let mut i = 0;
    while i < 8 {
        assert!(b[i] == ((x >> (8 * i)) & 0xff) as u8);
        i += 1;
    }
    assert!(u64::from_le_bytes(b) == x);
    let mut y: u64 = 0;
    let mut i = 0;
    while i < 8 {
        y |= (b[i] as u64) << (8 * i);
        i += 1;
    }
    assert!(y == x);
}
#[kani::proof]
fn r1_le_bytes_u32() {
    let x: u32 = kani::any();
    let b = x.to_le_bytes();
    assert!(b[0] == (x & 0xff) as u8 && b[1] == ((x >> 8) & 0xff) as u8
        && b[2] == ((x >> 16) & 0xff) as u8 && b[3] == ((x >> 24) & 0xff) as u8);
    assert!(u32::from_le_bytes(b) == x);
    assert!((b[0] as u32) | (b[1] as u32) << 8 | (b[2] as u32) << 16 | (b[3] as u32) << 24 == x);
}
#[kani::proof]
fn r1_le_bytes_u16() {
    let x: u16 = kani::any();
    let b = x.to_le_bytes();
    assert!(b[0] == (x & 0xff) as u8 && b[1] == ((x >> 8) & 0xff) as u8);
    assert!(u16::from_le_bytes(b) == x);
    assert!((b[0] as u16) | (b[1] as u16) << 8 == x);
}
#[kani::proof]
fn r1_from_le_slices() {
    // from_le_T(&S) == T::from_le_bytes(S.try_into().unwrap()) panics iff S.len() != size_of::<T>()
    let a: [u8; 8] = kani::any();
    let s: &[u8] = &a;
    let r: [u8; 8] = s.try_into().unwrap();
    assert!(r == a);
    let s4: &[u8] = &a[..4];
    let r4: [u8; 4] = s4.try_into().unwrap();
    assert!(r4[0] == a[0] && r4[3] == a[3]);
    let s2: &[u8] = &a[..2];
    let r2: [u8; 2] = s2.try_into().unwrap();
    assert!(r2[0] == a[0] && r2[1] == a[1]);
}

// ---- Header::decode over all 2^384 headers (loop-free: complete) ----------------
#[kani::proof]
fn header_decode_total() {
    let b: [u8; 48] = kani::any();
    match Header::decode(&b) {
        Ok(h) => {
            kani::cover!(true, "decode can succeed");
            assert!(h.spec == 0x1507);
            assert!(h.length as u128 == 48u128 + h.query_length as u128 + h.body_length as u128);
            let e = h.encode();
            assert!(e == b);
        }
        Err(_) => {
            kani::cover!(true, "decode can fail");
        }
    }
}

// encode/decode round trip for every header value (loop-free: complete)
#[kani::proof]
fn header_encode_roundtrip() {
    let h = Header {
        length: kani::any(),
        spec: kani::any(),
        version: kani::any(),
        notify: kani::any(),
        reserved: kani::any(),
        id: kani::any(),
        query_length: kani::any(),
        body_length: kani::any(),
        query_format: kani::any(),
        body_format: kani::any(),
        ec: kani::any(),
    };
    let e = h.encode();
    // fixed REPE v1 offsets
    assert!(e[0..8] == h.length.to_le_bytes());
    assert!(e[8..10] == h.spec.to_le_bytes());
    assert!(e[10] == h.version && e[11] == h.notify);
    assert!(e[12..16] == h.reserved.to_le_bytes());
    assert!(e[16..24] == h.id.to_le_bytes());
    assert!(e[24..32] == h.query_length.to_le_bytes());
    assert!(e[32..40] == h.body_length.to_le_bytes());
    assert!(e[40..42] == h.query_format.to_le_bytes());
    assert!(e[42..44] == h.body_format.to_le_bytes());
    assert!(e[44..48] == h.ec.to_le_bytes());
    if h.spec == 0x1507 && h.length as u128 == 48u128 + h.query_length as u128 + h.body_length as u128 {
        kani::cover!(true, "consistent header exists");
        match Header::decode(&e) {
            Ok(d) => assert!(d == h),
            Err(_) => assert!(false, "consistent header rejected"),
        }
    }
}

// ---- MessageView::from_slice on 48 symbolic header bytes + symbolic tail ≤ 8 (loop-free) ----
#[kani::proof]
fn view_from_slice_total() {
    let b: [u8; 56] = kani::any();
    let n: usize = kani::any();
    kani::assume(n <= 56);
    let buf = &b[..n];
    match MessageView::from_slice(buf) {
        Ok(v) => {
            kani::cover!(v.query.len() > 0 && v.body.len() > 0, "non-trivial frame parses");
            let total = 48 + v.query.len() + v.body.len();
            assert!(v.header.spec == 0x1507);
            assert!(v.header.query_length as usize == v.query.len());
            assert!(v.header.body_length as usize == v.body.len());
            assert!(v.header.length as usize == total);
            assert!(n >= total);
            // a borrowed view: same address and length <=> exactly those input bytes (loop-free)
            assert!(v.query.as_ptr() as usize == b.as_ptr() as usize + 48);
            assert!(v.body.as_ptr() as usize == b.as_ptr() as usize + 48 + v.query.len());
        }
        Err(_) => {}
    }
    match MessageView::from_slice_exact(buf) {
        Ok(v) => assert!(n == 48 + v.query.len() + v.body.len()),
        Err(_) => {}
    }
}

// ---- Message::from_slice (allocating) on the same domain, bounded by the tail length ----
#[kani::proof]
#[kani::unwind(10)]
fn message_from_slice_bounded() {
    let b: [u8; 52] = kani::any();
    let n: usize = kani::any();
    kani::assume(n <= 52);
    let buf = &b[..n];
    match Message::from_slice(buf) {
        Ok(m) => {
            let total = 48 + m.query.len() + m.body.len();
            assert!(m.header.length as usize == total);
            assert!(n >= total);
            assert!(m.query[..] == buf[48..48 + m.query.len()]);
            assert!(m.body[..] == buf[48 + m.query.len()..total]);
        }
        Err(_) => {}
    }
}

