use vstd::prelude::*;
verus! {
#[derive(Clone, Copy)]
pub struct Instant { pub t: u64 }
#[derive(Clone, Copy)]
pub struct Duration { pub d: u64 }
impl core::cmp::PartialEq for Instant {
    fn eq(&self, o: &Instant) -> (r: bool) ensures r == (self.t == o.t) { self.t == o.t }
}
impl core::cmp::PartialOrd for Instant {
    fn partial_cmp(&self, o: &Instant) -> (r: Option<core::cmp::Ordering>) { None }
    fn ge(&self, o: &Instant) -> (r: bool) ensures r == (self.t >= o.t) { self.t >= o.t }
}
impl core::ops::Sub for Instant {
    type Output = Duration;
    fn sub(self, o: Instant) -> (r: Duration) { Duration { d: if self.t >= o.t { self.t - o.t } else { 0 } } }
}
fn f(now: Instant, deadline: Instant) -> (r: Option<Duration>)
  ensures r.is_some() ==> now.t < deadline.t
{
    if now >= deadline { return None; }
    let timeout = deadline - now;
    Some(timeout)
}
fn g(c: &Option<String>) -> Option<String> { c.clone() }
fn h<T>(r: Result<T, u8>) -> T requires r.is_ok() { r.expect("poisoned") }
} // verus!
fn main() {}
