#![feature(allocator_api)]
use vstd::prelude::*;
use std::collections::VecDeque;
use std::sync::Arc;
verus! {

pub assume_specification<T, A: std::alloc::Allocator> [VecDeque::<T,A>::back] (v: &VecDeque<T,A>) -> (r: Option<&T>)
  ensures v@.len()==0 ==> r.is_none(), v@.len()>0 ==> r == Some(&v@[v@.len()-1]);
pub assume_specification<T, A: std::alloc::Allocator> [VecDeque::<T,A>::is_empty] (v: &VecDeque<T,A>) -> (r: bool)
  ensures r == (v@.len()==0);
struct ReplayRing {
    chunks: VecDeque<RingChunk>,
    bytes_held: u64,
    capacity_bytes: u64,
}

#[derive(Clone)]
pub struct RingChunk {
    pub offset: u64,
    pub data_len: u64,
    pub last: bool,
    pub body_bytes: Arc<Vec<u8>>,
}

impl ReplayRing {
    fn new(capacity_bytes: u64) -> Self {
        Self {
            chunks: VecDeque::new(),
            bytes_held: 0,
            capacity_bytes,
        }
    }

    fn push(&mut self, offset: u64, data_len: u64, last: bool, body_bytes: Vec<u8>) {
        let wire_len = body_bytes.len() as u64;
        self.chunks.push_back(RingChunk {
            offset,
            data_len,
            last,
            body_bytes: Arc::new(body_bytes),
        });
        self.bytes_held = self.bytes_held.saturating_add(wire_len);
        while self.bytes_held > self.capacity_bytes && self.chunks.len() > 1 {
            if let Some(front) = self.chunks.pop_front() {
                self.bytes_held = self
                    .bytes_held
                    .saturating_sub(front.body_bytes.len() as u64);
            }
        }
    }

    fn clear(&mut self) {
        self.chunks.clear();
        self.bytes_held = 0;
    }

    fn highest_end_offset(&self) -> Option<u64> {
        self.chunks.back().map(|c| c.offset + c.data_len)
    }

    fn covers(&self, offset: u64) -> bool {
        if self.chunks.is_empty() {
            return offset == 0;
        }
        for chunk in &self.chunks {
            if chunk.offset == offset {
                return true;
            }
        }
        self.highest_end_offset() == Some(offset)
    }

    #[verifier::external_body]
    fn replay_from(&self, offset: u64) -> Vec<RingChunk> {
        self.chunks
            .iter()
            .filter(|c| c.offset >= offset)
            .cloned()
            .collect()
    }
}
} // verus!
fn main() {}
