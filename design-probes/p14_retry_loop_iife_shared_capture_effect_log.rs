use vstd::prelude::*;
verus! {
pub struct RepeError { pub retryable: bool }
pub struct Value;
pub struct NodeState;
pub struct Client;
pub struct Log { pub ghost_ev: Ghost<Seq<int>> }
impl Log { pub closed spec fn ev(&self) -> Seq<int> { self.ghost_ev@ } }

#[verifier::external_body]
fn ensure_connected(node: &NodeState) -> (r: Result<Client, RepeError>) { unimplemented!() }
#[verifier::external_body]
fn call_json(c: &Client, m: &String) -> (r: Result<Value, RepeError>) { unimplemented!() }
#[verifier::external_body]
fn invalidate_client(node: &NodeState, Tracked(log): Tracked<&mut Log>)
   ensures final(log).ev() == old(log).ev().push(1) { unimplemented!() }
fn is_retryable_error(e: &RepeError) -> (r: bool) ensures r == e.retryable { e.retryable }
#[verifier::external_body]
fn sleep() {}

pub open spec fn retr(e: Option<RepeError>) -> bool { e matches Some(x) ==> x.retryable }
pub struct RemoteResult { pub value: Option<Value>, pub error: Option<RepeError> }

fn call_json_with_retry(node: &NodeState, method: String, max_attempts: usize, Tracked(log): Tracked<&mut Log>) -> (r: RemoteResult)
   ensures r.value.is_some() != r.error.is_some() || (r.value.is_none() && r.error.is_none() && max_attempts == 0),
           r.error matches Some(e) ==> (e.retryable ==> final(log).ev().len() > old(log).ev().len()),
{
        let mut last_error = None;
        for attempt in 0..max_attempts
            invariant
               retr(last_error), last_error.is_some() ==> log.ev().len() > old(log).ev().len(),
               attempt == 0 ==> last_error.is_none(),
               log.ev().len() >= old(log).ev().len(),
        {
            let call = (|| {
                let client = ensure_connected(node)?;
                call_json(&client, &method)
            })();

            match call {
                Ok(value) => {
                    return RemoteResult { value: Some(value), error: None };
                }
                Err(err) => {
                    let should_retry = is_retryable_error(&err);
                    last_error = Some(err);

                    if should_retry {
                        invalidate_client(node, Tracked(log));
                        if attempt + 1 < max_attempts {
                            sleep();
                        }
                    } else {
                        break;
                    }
                }
            }
        }
        RemoteResult { value: None, error: last_error }
}
} // verus!
fn main() {}
