//! Bounded stand-in scenarios (one schedule each) that drive the real library through situations the
//! extracted contracts cannot reach when an edit moves the code out of the verifiers' subset. Each
//! returns Err(..) or panics (the parent classifies a panic as a violation) only when the property's
//! own statement is contradicted; a scenario precondition that could not be set up yields Ok("inconclusive ..").
use serde_json::{json, Value};
use std::sync::atomic::{AtomicUsize, Ordering};
use std::sync::Arc;
use std::time::Duration;

pub fn run(entry: &str, v: &Value) -> Option<Result<String, String>> {
    Some(match entry {
        "server_query_parity" => rt2(server_query_parity()),
        "async_forward_id_collision" => rt2(async_forward_id_collision()),
        "async_client_small_frames_abandoned" => rt2(async_client_small_frames_abandoned()),
        "svs_cancel_during_next" => svs_cancel_during_next(),
        "svs_producer_panic" => svs_producer_panic(),
        "svs_stale_id_after_later_open" => svs_stale_id_after_later_open(),
        "svs_failed_commit_keeps_destination" => svs_failed_commit_keeps_destination(),
        "svs_early_stop_releases" => svs_early_stop_releases(),
        "svs_depths_and_slow_consumer" => svs_depths_and_slow_consumer(),
        "fleet_wide_broadcast" => fleet_wide_broadcast(v),
        "fleet_health_probe_malformed" => fleet_health_probe_malformed(),
        "async_fleet_abandoned_send_recovers" => rt2(async_fleet_abandoned_send_recovers()),
        "ws_default_limits" => rt2(ws_default_limits()),
        "offreader_reject_with_full_queue" => rt2(offreader_reject_with_full_queue()),
        "transfer_registry_map" => transfer_registry_map(),
        "ws_handshake_only_hook" => ws_handshake_only_hook::run(),
        "client_survives_cancel_and_idle" => client_survives_cancel_and_idle(),
        "peer_broadcast_payloads" => peer_broadcast_payloads(),
        "registry_message_bodies" => registry_message_bodies(),
        "client_emission_parity" => client_emission_parity(),
        "ws_drain_siblings_survive" => ws_drain_siblings::run(),
        "ws_oversized_notify_keeps_connection" => ws_oversized_notify::run(),
        _ => return None,
    })
}

fn rt2<F: std::future::Future<Output = Result<String, String>>>(f: F) -> Result<String, String> {
    let rt = tokio::runtime::Builder::new_multi_thread().worker_threads(2).enable_all().build().unwrap();
    let r = rt.block_on(f);
    rt.shutdown_background();
    r
}

// ---------------------------------------------------------------------------------------------
// C03: the same request yields the same response fields on blocking TCP, async TCP and async TCP
// with read/write timeouts configured; a handler-chosen response query is kept, otherwise the
// request's query is echoed.
struct OwnQuery(Arc<AtomicUsize>);
impl repe::server::HandlerErased for OwnQuery {
    fn handle(&self, req: &repe::Message) -> Result<repe::Message, repe::RepeError> {
        self.0.fetch_add(1, Ordering::SeqCst);
        Ok(repe::Message::builder()
            .id(req.header.id)
            .query_str("/chosen/by-handler")
            .query_format(repe::QueryFormat::JsonPointer)
            .body_json(&json!({ "ok": true }))?
            .build())
    }
}
#[derive(serde::Serialize, serde::Deserialize)]
struct ParityP {
    a: i64,
}
struct DeepRec;
impl repe::RepeStruct for DeepRec {
    fn repe_handle(&mut self, segments: &[&str], _body: Option<Value>) -> Result<Option<Value>, repe::StructError> {
        Ok(Some(json!({"segments": segments.len(), "last": segments.last().copied().unwrap_or("")})))
    }
}
fn parity_router(hits: Arc<AtomicUsize>) -> repe::Router {
    let v1 = Arc::new(repe::Registry::new());
    v1.register_value("/whoami", json!("one")).unwrap();
    let v10 = Arc::new(repe::Registry::new());
    v10.register_value("/whoami", json!("ten")).unwrap();
    repe::Router::new()
        .with_registry("/v1", v1)
        .with_registry("/v10", v10)
        .with_struct_shared("/deep", Arc::new(std::sync::Mutex::new(DeepRec)))
        .with_erased_handler("/own", Arc::new(OwnQuery(hits)))
        .with_json("/echo", |v: Value| Ok(v))
        .with_json_blocking("/blk", |v: Value| Ok(json!({"blk": v})))
        .with_typed_slice("/slice", |x: Vec<f64>| Ok::<_, (repe::ErrorCode, String)>(x))
        .with_typed("/typed", |p: ParityP| Ok::<_, (repe::ErrorCode, String)>(ParityP { a: p.a + 1 }))
        .with_typed_blocking("/typedblk", |p: ParityP| Ok::<_, (repe::ErrorCode, String)>(ParityP { a: p.a + 2 }))
        .with_json("/fail", |_v: Value| -> Result<Value, (repe::ErrorCode, String)> { Err((repe::ErrorCode::ApplicationErrorBase, "nope".into())) })
        // one path that alternates between success and failure on one connection (a multi-step history: whatever a server keeps
        // between responses must not leak from a success into the error that follows it, or back)
        .with_json("/flip", |v: Value| -> Result<Value, (repe::ErrorCode, String)> { if v["n"].as_u64().unwrap_or(0) % 2 == 1 { Err((repe::ErrorCode::ApplicationErrorBase, "odd".into())) } else { Ok(v) } })
}
const DEEP: &str = "/deep/a/b/c/d/e/f/g/h/i/j/k/l/m/n/o/p/q/r/s/t";
const PARITY_REQS: [(u64, &str, bool); 24] = [
    (1, "/own", false), (2, "/echo", false), (3, "/missing", false), (4, "/own", false), (5, "/fail", false), (6, "/echo", true), (7, "/own", false),
    (8, "/rawq", false), (9, "/blk", false), (10, "/nowhere/missing/path", false),
    (11, "/v10/whoami", false), (12, "/v1/whoami", false), (13, DEEP, false), (14, "/deep/x", false),
    // typed routes given a JSON text framed as UTF-8 (body format 3) and as JSON (2), inline and off-reader
    (15, "/typed", false), (16, "/typedblk", false), (17, "/typed#json", false), (18, "/typedblk#json", false),
    // a bulk numeric route given a JSON body: rejected alike on every path
    (19, "/slice", false),
    // success, failure, success, failure on the same path, back to back
    (20, "/flip", false), (21, "/flip", false), (22, "/flip", false), (23, "/flip", false),
    // a registered path sent with an UNASSIGNED query-format code (7): rejected with InvalidQuery, never dispatched
    (24, "/echo#qf7", false),
];
fn parity_request(id: u64, path: &str, notify: bool) -> repe::Message {
    // "/rawq": a request whose query is not a JSON pointer (rejected with InvalidQuery, query echoed)
    let qf = if path == "/rawq" { repe::QueryFormat::RawBinary } else { repe::QueryFormat::JsonPointer };
    if let Some(route) = path.strip_suffix("#qf7") {
        return repe::Message::builder().id(id).notify(notify).query_str(route).query_format_code(7).body_json(&json!({ "n": id })).unwrap().build();
    }
    if let Some(route) = path.strip_suffix("#json") {
        return repe::Message::builder().id(id).notify(notify).query_str(route).query_format(qf).body_json(&json!({"a": 40})).unwrap().build();
    }
    if path.starts_with("/typed") {
        return repe::Message::builder().id(id).notify(notify).query_str(path).query_format(qf).body_bytes(b"{\"a\":40}".to_vec()).body_format(repe::BodyFormat::Utf8).build();
    }
    let b = repe::Message::builder().id(id).notify(notify).query_str(path).query_format(qf);
    // the registry mounts are read (empty body), everything else carries a JSON body
    if path.starts_with("/v1") { b.build() } else { b.body_json(&json!({ "n": id })).unwrap().build() }
}
async fn parity_ws(router: repe::Router, unlimited: bool) -> Result<Vec<repe::Message>, String> {
    use futures_util::{SinkExt, StreamExt};
    use repe::tokio_tungstenite::tungstenite::Message as WsMessage;
    let listener = tokio::net::TcpListener::bind("127.0.0.1:0").await.map_err(|e| e.to_string())?;
    let addr = listener.local_addr().unwrap();
    // `unlimited`: with_offreader_limit(0) removes the cap; blocking routes are then served like any other
    let shared = if unlimited { repe::WebSocketServer::new(router).with_offreader_limit(0).into_shared() } else { repe::WebSocketServer::new(router).into_shared() };
    let srv = tokio::spawn(async move {
        loop {
            let Ok((stream, _)) = listener.accept().await else { break };
            let shared = shared.clone();
            tokio::spawn(async move {
                if let Ok(ws) = repe::WebSocketServer::accept(stream, "/repe").await {
                    let _ = shared.serve_connection(ws).await;
                }
            });
        }
    });
    let (mut ws, _) = repe::tokio_tungstenite::connect_async(format!("ws://{addr}/repe")).await.map_err(|e| e.to_string())?;
    let mut out = Vec::new();
    for (id, path, notify) in PARITY_REQS {
        // heartbeat control frames between requests are not requests and must not end the connection
        match id % 3 {
            0 => ws.send(WsMessage::Pong(vec![1, 2, 3].into())).await.map_err(|e| e.to_string())?,
            1 => ws.send(WsMessage::Ping(vec![9].into())).await.map_err(|e| e.to_string())?,
            _ => {}
        }
        ws.send(WsMessage::Binary(parity_request(id, path, notify).to_vec().into())).await.map_err(|e| e.to_string())?;
        if notify {
            continue;
        }
        loop {
            let frame = tokio::time::timeout(Duration::from_secs(30), ws.next())
                .await
                .map_err(|_| format!("WebSocket: no response to request {id} within 30 s"))?
                .ok_or_else(|| format!("WebSocket: connection closed before the response to request {id}"))?
                .map_err(|e| e.to_string())?;
            if let WsMessage::Binary(bytes) = frame {
                out.push(repe::Message::from_slice_exact(&bytes).map_err(|e| format!("WebSocket: response to request {id} is not one well-formed frame: {e}"))?);
                break;
            }
        }
    }
    srv.abort();
    Ok(out)
}
fn fields(m: &repe::Message) -> (u64, u32, u16, u16, Vec<u8>, Vec<u8>) {
    (m.header.id, m.header.ec, m.header.query_format, m.header.body_format, m.query.clone(), m.body.clone())
}
async fn parity_async(server: repe::AsyncServer) -> Result<Vec<repe::Message>, String> {
    let listener = tokio::net::TcpListener::bind(("127.0.0.1", 0)).await.unwrap();
    let addr = listener.local_addr().unwrap();
    tokio::spawn(async move {
        let _ = server.serve(listener).await;
    });
    let mut stream = tokio::net::TcpStream::connect(addr).await.unwrap();
    let mut out = Vec::new();
    for (id, path, notify) in PARITY_REQS {
        repe::async_io::write_message_async(&mut stream, &parity_request(id, path, notify)).await.unwrap();
        if notify {
            continue;
        }
        let resp = tokio::time::timeout(Duration::from_secs(30), repe::async_io::read_message_async(&mut stream))
            .await
            .map_err(|_| format!("async TCP: no response to request {id} within 30 s"))?
            .map_err(|e| format!("async TCP: response to request {id} is not well framed: {e}"))?;
        out.push(resp);
    }
    Ok(out)
}
fn parity_blocking(router: repe::Router) -> Result<Vec<repe::Message>, String> {
    let listener = std::net::TcpListener::bind(("127.0.0.1", 0)).unwrap();
    let addr = listener.local_addr().unwrap();
    std::thread::spawn(move || {
        let _ = repe::Server::new(router).serve(listener);
    });
    let mut stream = std::net::TcpStream::connect(addr).unwrap();
    stream.set_read_timeout(Some(Duration::from_secs(30))).unwrap();
    let mut out = Vec::new();
    for (id, path, notify) in PARITY_REQS {
        repe::write_message(&mut stream, &parity_request(id, path, notify)).unwrap();
        if notify {
            continue;
        }
        out.push(repe::read_message(&mut stream).map_err(|e| format!("blocking TCP: no well-framed response to request {id}: {e}"))?);
    }
    Ok(out)
}
async fn server_query_parity() -> Result<String, String> {
    let hits: Vec<Arc<AtomicUsize>> = (0..6).map(|_| Arc::new(AtomicUsize::new(0))).collect();
    let plain = parity_async(repe::AsyncServer::new(parity_router(hits[0].clone()))).await?;
    let with_w = parity_async(repe::AsyncServer::new(parity_router(hits[1].clone())).write_timeout(Some(Duration::from_secs(10)))).await?;
    let with_rw = parity_async(
        repe::AsyncServer::new(parity_router(hits[2].clone())).write_timeout(Some(Duration::from_secs(10))).read_timeout(Some(Duration::from_secs(10))),
    )
    .await?;
    {
        let server = repe::AsyncServer::new(repe::Router::new().with_json("/echo", |v: Value| Ok(v))).write_timeout(Some(Duration::from_millis(300)));
        let listener = tokio::net::TcpListener::bind(("127.0.0.1", 0)).await.unwrap();
        let addr = listener.local_addr().unwrap();
        tokio::spawn(async move {
            let _ = server.serve(listener).await;
        });
        let mut stream = tokio::net::TcpStream::connect(addr).await.unwrap();
        for (id, pause) in [(1u64, 0u64), (2, 900), (3, 0)] {
            tokio::time::sleep(Duration::from_millis(pause)).await;
            let sent = repe::async_io::write_message_async(&mut stream, &parity_request(id, "/echo", false)).await;
            let resp = match sent {
                Ok(()) => tokio::time::timeout(Duration::from_secs(30), repe::async_io::read_message_async(&mut stream)).await.map_err(|_| "no response within 30 s".to_string()).and_then(|r| r.map_err(|e| e.to_string())),
                Err(e) => Err(e.to_string()),
            };
            match resp {
                Ok(m) if m.header.id == id && m.header.ec == 0 => {}
                other => return Err(format!("async TCP server with only a write timeout (300 ms): request {id}, sent after an idle pause of {pause} ms, got {:?}; a write timeout bounds writes, it is not an idle timeout", other.map(|m| (m.header.id, m.header.ec)))),
            }
        }
    }
    // the same for the blocking server
    {
        let idle: Result<(), String> = tokio::task::spawn_blocking(|| {
            let listener = std::net::TcpListener::bind(("127.0.0.1", 0)).unwrap();
            let addr = listener.local_addr().unwrap();
            std::thread::spawn(move || {
                let _ = repe::Server::new(repe::Router::new().with_json("/echo", |v: Value| Ok(v))).write_timeout(Some(Duration::from_millis(300))).serve(listener);
            });
            let mut stream = std::net::TcpStream::connect(addr).unwrap();
            stream.set_read_timeout(Some(Duration::from_secs(30))).unwrap();
            for (id, pause) in [(1u64, 0u64), (2, 900), (3, 0)] {
                std::thread::sleep(Duration::from_millis(pause));
                let r = repe::write_message(&mut stream, &parity_request(id, "/echo", false)).map_err(|e| e.to_string()).and_then(|_| repe::read_message(&mut stream).map_err(|e| e.to_string()));
                match r {
                    Ok(m) if m.header.id == id && m.header.ec == 0 => {}
                    other => return Err(format!("blocking TCP server with only a write timeout (300 ms): request {id}, sent after an idle pause of {pause} ms, got {:?}; a write timeout bounds writes, it is not an idle timeout", other.map(|m| (m.header.id, m.header.ec)))),
                }
            }
            Ok(())
        })
        .await
        .unwrap();
        idle?;
    }
    let r = parity_router(hits[3].clone());
    let blocking = tokio::task::spawn_blocking(move || parity_blocking(r)).await.unwrap()?;
    let ws = parity_ws(parity_router(hits[4].clone()), false).await?;
    let ws_unlimited = parity_ws(parity_router(hits[5].clone()), true).await?;
    let expect_q: [&[u8]; 23] = [b"/chosen/by-handler", b"/echo", b"/missing", b"/chosen/by-handler", b"/fail", b"/chosen/by-handler", b"/rawq", b"/blk", b"/nowhere/missing/path", b"/v10/whoami", b"/v1/whoami", DEEP.as_bytes(), b"/deep/x", b"/typed", b"/typedblk", b"/typed", b"/typedblk", b"/slice", b"/flip", b"/flip", b"/flip", b"/flip", b"/echo"];
    let expect_id = [1u64, 2, 3, 4, 5, 7, 8, 9, 10, 11, 12, 13, 14, 15, 16, 17, 18, 19, 20, 21, 22, 23, 24];
    for (name, got) in [("async", &plain), ("async+write_timeout", &with_w), ("async+read+write_timeout", &with_rw), ("blocking", &blocking), ("WebSocket", &ws), ("WebSocket, off-reader cap removed", &ws_unlimited)] {
        if got.len() != 23 {
            return Err(format!("{name}: {} responses to 23 requests and one notify", got.len()));
        }
        if got[22].header.ec != repe::ErrorCode::InvalidQuery as u32 {
            return Err(format!("{name}: a request whose query-format code (7) is not assigned was answered with ec {} (body {:?}); it must be rejected with InvalidQuery and never dispatched", got[22].header.ec, String::from_utf8_lossy(&got[22].body)));
        }
        for (i, ec) in [(18usize, 0u32), (19, repe::ErrorCode::ApplicationErrorBase as u32), (20, 0), (21, repe::ErrorCode::ApplicationErrorBase as u32)] {
            if got[i].header.ec != ec {
                return Err(format!("{name}: request {} to the alternating route was answered with ec {} (expected {ec})", expect_id[i], got[i].header.ec));
            }
        }
        if got[17].header.ec != repe::ErrorCode::InvalidBody as u32 {
            return Err(format!("{name}: a typed-slice route given a JSON body answered ec {}; an unacceptable body format is InvalidBody", got[17].header.ec));
        }
        for (i, want) in [(13usize, 41i64), (14, 42), (15, 41), (16, 42)] {
            if got[i].header.ec != 0 || got[i].json_body::<Value>().ok().and_then(|v| v["a"].as_i64()) != Some(want) {
                return Err(format!("{name}: typed route {:?} given {{\"a\":40}} framed as {} answered ec {} body {:?}", String::from_utf8_lossy(expect_q[i]), if i < 15 { "UTF-8 (body format 3)" } else { "JSON" }, got[i].header.ec, String::from_utf8_lossy(&got[i].body)));
            }
        }
        if got[9].header.ec != 0 || got[9].json_body::<Value>().ok() != Some(json!("ten")) || got[10].json_body::<Value>().ok() != Some(json!("one")) {
            return Err(format!("{name}: mounts /v1 and /v10 answered /v10/whoami with ec {} body {:?} and /v1/whoami with {:?}", got[9].header.ec, String::from_utf8_lossy(&got[9].body), String::from_utf8_lossy(&got[10].body)));
        }
        if got[11].header.ec != 0 || got[11].json_body::<Value>().ok() != Some(json!({"segments": 20, "last": "t"})) {
            return Err(format!("{name}: a 20-segment path below a struct mount was answered with ec {} body {:?}", got[11].header.ec, String::from_utf8_lossy(&got[11].body)));
        }
        for i in 0..23 {
            if got[i].header.id != expect_id[i] {
                return Err(format!("{name}: response {i} carries id {} (expected {})", got[i].header.id, expect_id[i]));
            }
            if got[i].query != expect_q[i] {
                return Err(format!(
                    "{name}: response to request {} carries query {:?}; the handler's own query, else the request's, is {:?}",
                    expect_id[i],
                    String::from_utf8_lossy(&got[i].query),
                    String::from_utf8_lossy(expect_q[i])
                ));
            }
        }
        if got[2].header.ec != repe::ErrorCode::MethodNotFound as u32 {
            return Err(format!("{name}: unknown path answered with ec {}", got[2].header.ec));
        }
    }
    if ws[6].header.ec != repe::ErrorCode::InvalidQuery as u32 {
        return Err(format!("a query that is not a JSON pointer was answered with ec {}", ws[6].header.ec));
    }
    for i in 0..23 {
        for (name, got) in [("async", &plain), ("async+write_timeout", &with_w), ("async+read+write_timeout", &with_rw), ("WebSocket", &ws), ("WebSocket, off-reader cap removed", &ws_unlimited)] {
            if fields(&got[i]) != fields(&blocking[i]) {
                return Err(format!("response {i} differs between {name} and blocking TCP: {:?} vs {:?}", fields(&got[i]), fields(&blocking[i])));
            }
        }
    }
    // the copying dispatch path (HandlerErased::handle on an owned request: middleware, direct use) answers with the same header fields and body
    {
        let r = parity_router(Arc::new(AtomicUsize::new(0)));
        let idx = |id: u64| expect_id.iter().position(|x| *x == id).unwrap();
        for (id, path, notify) in PARITY_REQS {
            if notify || path == "/rawq" || path.ends_with("#qf7") {
                continue;
            }
            let Some(h) = r.get(path) else { continue };
            let owned = h.handle(&parity_request(id, path, false)).map_err(|e| format!("owned dispatch of {path}: {e}"))?;
            let wire = &blocking[idx(id)];
            let a = (owned.header.id, owned.header.ec, owned.header.query_format, owned.header.body_format, owned.body.clone());
            let b = (wire.header.id, wire.header.ec, wire.header.query_format, wire.header.body_format, wire.body.clone());
            if a != b {
                return Err(format!("request {id} ({path}): the owned dispatch path answers (id, ec, query_format, body_format, body) = {a:?}, the servers answer {b:?}"));
            }
        }
    }
    for h in &hits {
        if h.load(Ordering::SeqCst) != 3 {
            return Err(format!("the /own handler ran {} times for 3 requests", h.load(Ordering::SeqCst)));
        }
    }
    Ok("23 responses identical on 6 server configurations (blocking TCP, async TCP x3, WebSocket inline and off-reader with the default and with no off-reader cap)".into())
}

// ---------------------------------------------------------------------------------------------
// C04: a forward whose caller-chosen id collides with an in-flight call is refused and must not
// disturb that call: every in-flight call still gets the response whose id equals its request's id.
async fn async_forward_id_collision() -> Result<String, String> {
    use std::io::Write as _;
    const CALLS: usize = 4;
    let listener = std::net::TcpListener::bind("127.0.0.1:0").unwrap();
    let addr = listener.local_addr().unwrap();
    let (seen_tx, seen_rx) = std::sync::mpsc::channel::<Vec<u64>>();
    let (go_tx, go_rx) = std::sync::mpsc::channel::<()>();
    let (stray_tx, stray_rx) = std::sync::mpsc::channel::<Option<(u64, String)>>();
    let server = std::thread::spawn(move || {
        let (stream, _) = listener.accept().unwrap();
        let mut reader = std::io::BufReader::new(stream.try_clone().unwrap());
        let mut writer = std::io::BufWriter::new(stream);
        let mut requests = Vec::new();
        for _ in 0..CALLS {
            match repe::read_message(&mut reader) {
                Ok(m) => requests.push(m),
                Err(_) => return,
            }
        }
        let _ = seen_tx.send(requests.iter().map(|r| r.header.id).collect());
        if go_rx.recv_timeout(Duration::from_secs(60)).is_err() {
            return;
        }
        // a refused forward must not have put anything on the wire
        let _ = reader.get_ref().set_read_timeout(Some(Duration::from_millis(300)));
        let stray = repe::read_message(&mut reader).ok().map(|m| (m.header.id, m.query_utf8().to_string()));
        let _ = stray_tx.send(stray);
        let _ = reader.get_ref().set_read_timeout(None);
        for req in requests.into_iter().rev() {
            let response = repe::Message::builder()
                .id(req.header.id)
                .query_bytes(req.query.clone())
                .query_format(repe::QueryFormat::JsonPointer)
                .body_json(&json!({"path": req.query_utf8(), "id": req.header.id}))
                .unwrap()
                .build();
            let _ = repe::write_message(&mut writer, &response);
            let _ = writer.flush();
        }
    });
    let client = repe::AsyncClient::connect(addr).await.unwrap();
    let mut calls = Vec::new();
    for n in 0..CALLS {
        let c = client.clone();
        calls.push(tokio::spawn(async move {
            let path = format!("/call/{n}");
            let out = c.call_json_with_timeout(&path, &json!({"n": n}), Duration::from_secs(60)).await;
            (path, out)
        }));
    }
    let ids = match tokio::task::spawn_blocking(move || seen_rx.recv_timeout(Duration::from_secs(30))).await.unwrap() {
        Ok(ids) => ids,
        Err(_) => return Ok("inconclusive: the scripted server did not see all requests".into()),
    };
    let mut report = Vec::new();
    for colliding_id in [ids[2], ids[0]] {
        let forwarded = repe::Message::builder().id(colliding_id).query_str("/proxied").query_format(repe::QueryFormat::JsonPointer).body_json(&json!({"proxied": true})).unwrap().build();
        match client.forward_message_with_timeout(&forwarded, Duration::from_millis(1500)).await {
            Err(repe::RepeError::Io(e)) if e.kind() == std::io::ErrorKind::AlreadyExists => report.push(format!("forward id {colliding_id} refused")),
            other => report.push(format!("forward id {colliding_id}: {:?}", other.map(|m| m.map(|m| m.header.id)))),
        }
    }
    go_tx.send(()).unwrap();
    for call in calls {
        let (path, out) = call.await.unwrap();
        match out {
            Ok(v) if v["path"] == path => {}
            Ok(v) => return Err(format!("call {path} got someone else's response {v} ({})", report.join("; "))),
            Err(e) => return Err(format!("call {path} lost the response whose id equals its request's id: {e} ({})", report.join("; "))),
        }
    }
    let _ = tokio::task::spawn_blocking(move || server.join()).await;
    if let Ok(Some((id, q))) = stray_rx.try_recv() {
        if report.iter().all(|r| r.ends_with("refused")) {
            return Err(format!("a forward that was refused for its colliding id still reached the wire: the server read a fifth frame with id {id} and query {q:?}"));
        }
    }
    Ok(format!("4 in-flight calls answered; {}", report.join("; ")))
}

// ---------------------------------------------------------------------------------------------
// C05: async TCP client, frames smaller than its write buffer, sends abandoned by caller-side
// timeouts against a stalled peer; the peer then resumes and one more frame is sent. The peer walks
// what it received by declared lengths only: whole frames, at most one truncated frame at the end.
async fn async_client_small_frames_abandoned() -> Result<String, String> {
    use tokio::io::AsyncReadExt;
    const FILL: u8 = 0xAB;
    const FRAME: usize = 6000;
    fn u64_at(b: &[u8], o: usize) -> u64 {
        u64::from_le_bytes(b[o..o + 8].try_into().unwrap())
    }
    fn check_stream(stream: &[u8]) -> Result<(usize, usize), String> {
        let mut pos = 0usize;
        let mut frames = 0usize;
        while pos < stream.len() {
            let rest = &stream[pos..];
            if rest.len() < 48 {
                return Ok((frames, rest.len()));
            }
            let length = u64_at(rest, 0);
            let spec = u16::from_le_bytes([rest[8], rest[9]]);
            let version = rest[10];
            let qlen = u64_at(rest, 24);
            let blen = u64_at(rest, 32);
            if spec != 0x1507 || version != 1 || length != 48 + qlen + blen {
                return Err(format!("offset {pos}: not a frame boundary (spec {spec:#x}, version {version}, length {length}, query {qlen}, body {blen})"));
            }
            let (qlen, blen) = (qlen as usize, blen as usize);
            let have = rest.len() - 48;
            let q = &rest[48..48 + qlen.min(have)];
            if !q.is_empty() && q[0] != b'/' {
                return Err(format!("offset {pos}: query does not start with '/'"));
            }
            let body_have = have.saturating_sub(qlen).min(blen);
            let body = &rest[48 + qlen.min(have)..48 + qlen.min(have) + body_have];
            if let Some(bad) = body.iter().position(|b| *b != FILL) {
                return Err(format!("frame at offset {pos} declares a {blen}-byte body, but after {bad} body bytes the stream carries foreign bytes: something was written after a torn frame"));
            }
            if have < qlen + blen {
                return Ok((frames, rest.len()));
            }
            frames += 1;
            pos += 48 + qlen + blen;
        }
        Ok((frames, 0))
    }
    async fn send(client: &repe::AsyncClient, path: &str, body: &[u8], patience: Duration) -> Result<Result<(), repe::RepeError>, tokio::time::error::Elapsed> {
        tokio::time::timeout(patience, client.notify_with_formats(path, repe::QueryFormat::JsonPointer as u16, Some(body), repe::BodyFormat::RawBinary as u16)).await
    }
    let listener = tokio::net::TcpListener::bind("127.0.0.1:0").await.unwrap();
    let addr = listener.local_addr().unwrap();
    let (go_tx, go_rx) = tokio::sync::oneshot::channel::<()>();
    let peer = tokio::spawn(async move {
        let (mut stream, _) = listener.accept().await.unwrap();
        let _ = go_rx.await;
        let mut all = Vec::new();
        let mut chunk = vec![0u8; 1 << 16];
        loop {
            match tokio::time::timeout(Duration::from_secs(2), stream.read(&mut chunk)).await {
                Ok(Ok(0)) | Ok(Err(_)) | Err(_) => break,
                Ok(Ok(n)) => all.extend_from_slice(&chunk[..n]),
            }
        }
        all
    });
    let client = repe::AsyncClient::connect(addr).await.unwrap();
    let body = vec![FILL; FRAME - 48 - "/fill".len()];
    let short = Duration::from_millis(200);
    let mut delivered = 0usize;
    loop {
        match send(&client, "/fill", &body, short).await {
            Ok(Ok(())) => delivered += 1,
            Ok(Err(err)) => return Ok(format!("inconclusive: send error while filling: {err}")),
            Err(_) => break,
        }
        if delivered >= 200_000 {
            return Ok("inconclusive: the stalled peer never pushed back".into());
        }
    }
    let mut second = send(&client, "/torn", &body, short).await;
    for _ in 0..8 {
        if !matches!(second, Ok(Ok(()))) {
            break;
        }
        second = send(&client, "/torn", &body, short).await;
    }
    let second_s = format!("{second:?}");
    go_tx.send(()).ok();
    tokio::time::sleep(Duration::from_millis(500)).await;
    let third = send(&client, "/after", &[FILL; 16], Duration::from_secs(5)).await;
    let third_s = format!("{third:?}");
    drop(client);
    let stream = peer.await.unwrap();
    match check_stream(&stream) {
        Ok((frames, tail)) => {
            if tail >= FRAME + 48 {
                return Err(format!("more than one truncated frame ends the stream ({tail} trailing bytes)"));
            }
            Ok(format!("{frames} whole frames ({delivered} delivered before the stall), {tail} trailing bytes; second {second_s}, third {third_s}"))
        }
        Err(why) => Err(format!("peer received {} bytes that are not whole frames (delivered {delivered}, second {second_s}, third {third_s}): {why}", stream.len())),
    }
}

// ---------------------------------------------------------------------------------------------
// C09: a cancel that reaches the server while a `next` for the same stream is parked on the
// producer releases the stream: the parked next may still deliver, every later next fails.
fn svs_cancel_during_next() -> Result<String, String> {
    use repe::value_stream::{Compression, RouterValueStreamExt, StreamOpts, ROUTE_CANCEL, ROUTE_NEXT, ROUTE_OPEN};
    use std::io::Write;
    use std::sync::{Condvar, Mutex};
    #[derive(serde::Serialize)]
    struct OpenRequest {
        resource: String,
    }
    #[derive(serde::Deserialize)]
    struct OpenResponse {
        #[allow(dead_code)]
        version: u8,
        stream_id: u64,
        #[allow(dead_code)]
        format: u16,
        #[allow(dead_code)]
        compression: u8,
    }
    #[derive(serde::Serialize)]
    struct NextRequest {
        stream_id: u64,
    }
    #[derive(serde::Serialize)]
    struct CancelRequest {
        stream_id: u64,
        reason: String,
    }
    fn call<T: serde::Serialize>(client: &repe::Client, route: &str, body: &T) -> Result<repe::Message, repe::RepeError> {
        let body = beve::to_vec(body).expect("encode");
        client.call_with_formats(route, repe::QueryFormat::JsonPointer as u16, Some(&body), repe::BodyFormat::Beve as u16)
    }
    type Gate = Arc<(Mutex<bool>, Condvar)>;
    let gate: Gate = Arc::new((Mutex::new(false), Condvar::new()));
    let producer_gate = Arc::clone(&gate);
    let opts = StreamOpts { chunk_bytes: 16, compression: Compression::None, zstd_level: 3, session_depth: 4 };
    let router = repe::Router::new().with_writer_stream(
        repe::BodyFormat::RawBinary,
        move |resource: &str| {
            let gate = Arc::clone(&producer_gate);
            (resource == "slow").then_some(move |w: &mut dyn Write| -> std::io::Result<()> {
                w.write_all(&[1u8; 16])?;
                {
                    let mut open = gate.0.lock().unwrap();
                    while !*open {
                        open = gate.1.wait(open).unwrap();
                    }
                }
                for i in 2u8..=6 {
                    w.write_all(&[i; 16])?;
                }
                Ok(())
            })
        },
        opts,
    );
    let server = repe::Server::new(router);
    let listener = server.listen("127.0.0.1:0").expect("bind");
    let addr = listener.local_addr().expect("addr");
    std::thread::spawn(move || {
        let _ = server.serve(listener);
    });
    let puller = repe::Client::connect(addr).expect("connect puller");
    let canceller = repe::Client::connect(addr).expect("connect canceller");
    let open: OpenResponse = call(&puller, ROUTE_OPEN, &OpenRequest { resource: "slow".to_string() }).expect("open").beve_body().expect("open body");
    let stream_id = open.stream_id;
    // the canceller's message ids must not coincide with the stream id: burn a few ids on pulls of an unknown stream
    for _ in 0..3 {
        let _ = call(&canceller, ROUTE_NEXT, &NextRequest { stream_id: stream_id.wrapping_add(1_000_003) });
    }
    let g2 = Arc::clone(&gate);
    let helper = std::thread::spawn(move || {
        std::thread::sleep(Duration::from_millis(700));
        let r = call(&canceller, ROUTE_CANCEL, &CancelRequest { stream_id, reason: "consumer gave up".to_string() });
        *g2.0.lock().unwrap() = true;
        g2.1.notify_all();
        r.map(|_| ()).map_err(|e| e.to_string())
    });
    let first = call(&puller, ROUTE_NEXT, &NextRequest { stream_id });
    let cancel = helper.join().unwrap();
    if let Err(e) = cancel {
        return Ok(format!("inconclusive: the cancel was not acknowledged: {e}"));
    }
    let first_s = match &first {
        Ok(m) => format!("chunk of {} bytes", m.body.len()),
        Err(e) => format!("error {e}"),
    };
    // the stream was released by the acknowledged cancel: every later pull must be an error
    for k in 0..3 {
        if let Ok(m) = call(&puller, ROUTE_NEXT, &NextRequest { stream_id }) {
            return Err(format!(
                "next #{k} after an acknowledged cancel returned a {}-byte chunk (the next parked during the cancel returned: {first_s}); pulling after release must be an error",
                m.body.len()
            ));
        }
    }
    Ok(format!("parked next: {first_s}; 3 later pulls all failed"))
}

// ---------------------------------------------------------------------------------------------
// C09: a producer that panics after writing n bytes surfaces to every puller as an error, never
// as a clean (truncated) stream.
fn svs_producer_panic() -> Result<String, String> {
    use repe::value_stream::{Compression, RouterValueStreamExt, StreamOpts};
    use std::io::Write;
    std::panic::set_hook(Box::new(|_| {}));
    let mut n_ok = 0;
    for compression in [Compression::None, Compression::Zstd] {
        for n in [0usize, 8, 16, 17, 40, 48] {
            let opts = StreamOpts { chunk_bytes: 16, compression, zstd_level: 3, session_depth: 4 };
            let router = repe::Router::new().with_writer_stream(
                repe::BodyFormat::RawBinary,
                move |resource: &str| {
                    (resource == "boom").then_some(move |w: &mut dyn Write| -> std::io::Result<()> {
                        w.write_all(&vec![0x5Au8; n])?;
                        panic!("producer blew up mid-stream");
                    })
                },
                opts,
            );
            let server = repe::Server::new(router);
            let listener = server.listen("127.0.0.1:0").expect("bind");
            let addr = listener.local_addr().expect("addr");
            std::thread::spawn(move || {
                let _ = server.serve(listener);
            });
            let client = repe::Client::connect(addr).expect("connect");
            let got = repe::pull_to_vec(&client, "boom");
            if let Ok(v) = &got {
                return Err(format!(
                    "producer panicked after writing {n} bytes ({compression:?}); pull_to_vec ended cleanly with {} bytes instead of an error",
                    v.len()
                ));
            }
            let dir = std::env::temp_dir().join(format!("repe-verif-panic-{}-{n}", std::process::id()));
            let _ = std::fs::create_dir_all(&dir);
            let dest = dir.join("out.bin");
            let got = repe::pull_to_file(&client, "boom", &dest);
            let exists = dest.exists();
            let _ = std::fs::remove_dir_all(&dir);
            if got.is_ok() || exists {
                return Err(format!("producer panicked after writing {n} bytes ({compression:?}); pull_to_file returned {:?} and destination exists: {exists}", got.map(|_| ())));
            }
            // the same with a destination that already holds good content: it must be exactly what it was
            let dir = std::env::temp_dir().join(format!("repe-verif-panic2-{}-{n}", std::process::id()));
            let _ = std::fs::create_dir_all(&dir);
            let dest = dir.join("out.bin");
            std::fs::write(&dest, b"previous good content").map_err(|e| e.to_string())?;
            let got = repe::pull_to_file(&client, "boom", &dest);
            let now = std::fs::read(&dest).ok();
            let _ = std::fs::remove_dir_all(&dir);
            if got.is_ok() || now.as_deref() != Some(b"previous good content".as_slice()) {
                return Err(format!("producer panicked after writing {n} bytes ({compression:?}); pull_to_file over an existing destination returned {:?} and the destination now holds {:?}", got.map(|_| ()), now.map(|b| b.len())));
            }
            n_ok += 1;
        }
    }
    Ok(format!("{n_ok} panicking producers all surfaced as errors"))
}

// ---------------------------------------------------------------------------------------------
// C10: a pull whose final rename fails (the temp sibling vanished between fsync and rename -- e.g. removed by an overlapping
// failed pull to the same destination) must leave a pre-existing destination exactly as it was, and no temp file behind.
fn svs_failed_commit_keeps_destination() -> Result<String, String> {
    use repe::value_stream::{Compression, RouterValueStreamExt, StreamOpts};
    use std::io::Write;
    const TRAILER: [u8; 8] = *b"TRAILER!";
    struct Null;
    impl Write for Null {
        fn write(&mut self, b: &[u8]) -> std::io::Result<usize> { Ok(b.len()) }
        fn flush(&mut self) -> std::io::Result<()> { Ok(()) }
    }
    let opts = StreamOpts { chunk_bytes: 1024, compression: Compression::None, zstd_level: 3, session_depth: 4 };
    let router = repe::Router::new().with_writer_stream(
        repe::BodyFormat::RawBinary,
        move |resource: &str| {
            (resource == "good").then_some(move |w: &mut dyn Write| -> std::io::Result<()> {
                w.write_all(&vec![7u8; 5000])?;
                w.write_all(&TRAILER)
            })
        },
        opts,
    );
    let server = repe::Server::new(router);
    let listener = server.listen("127.0.0.1:0").expect("bind");
    let addr = listener.local_addr().expect("addr");
    std::thread::spawn(move || {
        let _ = server.serve(listener);
    });
    let client = repe::Client::connect(addr).expect("connect");
    let mut cases = 0;
    for preexisting in [true, false] {
        let dir = std::env::temp_dir().join(format!("repe-verif-commitfail-{}-{preexisting}", std::process::id()));
        let _ = std::fs::remove_dir_all(&dir);
        std::fs::create_dir_all(&dir).map_err(|e| e.to_string())?;
        let dest = dir.join("data.bin");
        let temp = dir.join("data.bin.svspart");
        if preexisting {
            std::fs::write(&dest, b"previous good content").map_err(|e| e.to_string())?;
        }
        let t2 = temp.clone();
        let vanished = std::sync::Arc::new(std::sync::atomic::AtomicBool::new(false));
        let v2 = vanished.clone();
        let res = repe::pull_to_file_trailer_verified(&client, "good", &dest, TRAILER.len(), Null, move |_d, _t| {
            // fault: the temp sibling disappears before the rename
            v2.store(std::fs::remove_file(&t2).is_ok(), std::sync::atomic::Ordering::SeqCst);
            Ok(())
        });
        let now = std::fs::read(&dest).ok();
        let temp_left = temp.exists();
        let _ = std::fs::remove_dir_all(&dir);
        if !vanished.load(std::sync::atomic::Ordering::SeqCst) {
            return Ok("inconclusive: the temp sibling has another name; the fault could not be injected".into());
        }
        if res.is_ok() {
            return Err("the rename of a vanished temp file was reported as a successful pull".into());
        }
        if temp_left {
            return Err("a failed commit left the temp file behind".into());
        }
        let want: Option<&[u8]> = if preexisting { Some(b"previous good content") } else { None };
        if now.as_deref() != want {
            return Err(format!("the final rename failed (temp sibling vanished between fsync and rename); the destination, which held {:?} before the pull, now holds {:?}: a failed pull must leave it untouched", want.map(|b| b.len()), now.map(|b| b.len())));
        }
        cases += 1;
    }
    Ok(format!("{cases} failed commits left the destination untouched"))
}

// ---------------------------------------------------------------------------------------------
// C16: a request arriving at the off-reader cap while the connection's outbound queue is momentarily FULL (a client slow to
// read) is still answered ResourceExhausted -- back-pressure may delay the rejection, it must not lose it or cost the
// connection and the parked in-flight call. Cap 1, outbound capacity 2, a 64 KiB in-memory transport (adopted stream).
async fn offreader_reject_with_full_queue() -> Result<String, String> {
    use futures_util::{SinkExt, StreamExt};
    use repe::tokio_tungstenite::tungstenite::protocol::Role;
    use repe::tokio_tungstenite::tungstenite::Message as WsMessage;
    use repe::tokio_tungstenite::WebSocketStream;
    use std::sync::{Condvar, Mutex};
    type Raw = WebSocketStream<tokio::io::DuplexStream>;
    fn frame(id: u64, path: &str) -> WsMessage {
        WsMessage::Binary(repe::Message::builder().id(id).query_format(repe::QueryFormat::JsonPointer).query_str(path).body_json(&json!({})).expect("body").build().into_wire_bytes().into())
    }
    async fn recv(c: &mut Raw, expecting: &str) -> Result<repe::Message, String> {
        let f = tokio::time::timeout(Duration::from_secs(5), c.next()).await.map_err(|_| format!("no frame within 5 s while expecting {expecting}"))?
            .ok_or_else(|| format!("the connection ended while the client was expecting {expecting}"))?
            .map_err(|e| format!("transport error while expecting {expecting}: {e}"))?;
        let WsMessage::Binary(b) = f else { return Err(format!("the server sent {f:?} while the client was expecting {expecting}")) };
        repe::Message::from_slice_exact(&b).map_err(|e| e.to_string())
    }
    let gate = Arc::new((Mutex::new(false), Condvar::new()));
    let running = Arc::new(AtomicUsize::new(0));
    let (g, r) = (gate.clone(), running.clone());
    let router = repe::Router::new()
        .with_json_blocking("/hold", move |_: Value| {
            r.fetch_add(1, Ordering::SeqCst);
            let (lock, cv) = &*g;
            let guard = lock.lock().unwrap();
            let _ = cv.wait_timeout_while(guard, Duration::from_secs(10), |open| !*open).unwrap();
            r.fetch_sub(1, Ordering::SeqCst);
            Ok(json!({"released": true}))
        })
        .with_json("/big", |_: Value| Ok(json!({"blob": "x".repeat(40 * 1024)})))
        .with_json("/ping", |_: Value| Ok(json!({"pong": true})));
    let (server_io, client_io) = tokio::io::duplex(64 * 1024);
    let shared = repe::WebSocketServer::new(router).with_offreader_limit(1).with_outbound_capacity(2).into_shared();
    let ws = shared.adopt_upgraded(server_io).await;
    let server = tokio::spawn(async move { shared.serve_connection(ws).await });
    let mut client: Raw = WebSocketStream::from_raw_socket(client_io, Role::Client, None).await;
    let res: Result<String, String> = async {
        client.send(frame(1, "/hold")).await.map_err(|e| e.to_string())?;
        for _ in 0..300 {
            if running.load(Ordering::SeqCst) == 1 { break; }
            tokio::time::sleep(Duration::from_millis(10)).await;
        }
        if running.load(Ordering::SeqCst) != 1 { return Ok("inconclusive: the first blocking handler did not start within 3 s".into()); }
        // pipeline without reading: four big inline replies back the writer up, then a request at the cap, then an inline one
        for id in 10..14 { client.send(frame(id, "/big")).await.map_err(|e| e.to_string())?; }
        client.send(frame(20, "/hold")).await.map_err(|e| e.to_string())?;
        client.send(frame(21, "/ping")).await.map_err(|e| e.to_string())?;
        tokio::time::sleep(Duration::from_millis(300)).await;
        for id in 10..14 {
            let big = recv(&mut client, "a /big reply").await?;
            if (big.header.id, big.header.ec) != (id, 0) { return Err(format!("reply {} ec {} where the reply to /big request {id} was due", big.header.id, big.header.ec)); }
        }
        let rej = recv(&mut client, "the ResourceExhausted reply to the request that arrived at the cap with the outbound queue full").await?;
        if rej.header.id != 20 || rej.header.ec != repe::ErrorCode::ResourceExhausted as u32 {
            return Err(format!("the request that arrived at the off-reader cap (outbound queue full) was answered with id {} ec {}", rej.header.id, rej.header.ec));
        }
        let pong = recv(&mut client, "the /ping reply (the connection must keep serving after a rejection)").await?;
        if (pong.header.id, pong.header.ec) != (21, 0) { return Err(format!("after the rejection the inline request got id {} ec {}", pong.header.id, pong.header.ec)); }
        { let (lock, cv) = &*gate; *lock.lock().unwrap() = true; cv.notify_all(); }
        let rel = recv(&mut client, "the reply to the parked /hold").await?;
        if (rel.header.id, rel.header.ec) != (1, 0) { return Err(format!("the parked call was answered with id {} ec {}", rel.header.id, rel.header.ec)); }
        Ok("a rejection at the cap survived a full outbound queue; the connection and the parked call carried on".into())
    }.await;
    { let (lock, cv) = &*gate; *lock.lock().unwrap() = true; cv.notify_all(); }
    drop(client);
    let _ = tokio::time::timeout(Duration::from_secs(5), server).await;
    res
}

// ---------------------------------------------------------------------------------------------
// C09 (multi-step history): pulling past the end of a finished stream stays an error after a LATER stream was opened on the
// same producer, and that later stream's consumer still gets exactly its own bytes, ending once.
fn svs_stale_id_after_later_open() -> Result<String, String> {
    use repe::value_stream::{Compression, RouterValueStreamExt, StreamOpts};
    #[derive(serde::Serialize)]
    struct OpenReq { resource: String }
    #[derive(serde::Deserialize)]
    struct OpenResp { #[allow(dead_code)] version: u8, stream_id: u64, #[allow(dead_code)] format: u16, #[allow(dead_code)] compression: u8 }
    #[derive(serde::Serialize)]
    struct NextReq { stream_id: u64 }
    fn open(c: &repe::Client, resource: &str) -> Result<u64, String> {
        let body = beve::to_vec(&OpenReq { resource: resource.to_string() }).map_err(|e| e.to_string())?;
        let r = c.call_with_formats("/_svs/open", repe::QueryFormat::JsonPointer as u16, Some(&body), repe::BodyFormat::Beve as u16).map_err(|e| format!("open: {e}"))?;
        let o: OpenResp = beve::from_slice(&r.body).map_err(|e| format!("open response: {e}"))?;
        Ok(o.stream_id)
    }
    fn next(c: &repe::Client, id: u64) -> Result<(Vec<u8>, bool), String> {
        let body = beve::to_vec(&NextReq { stream_id: id }).map_err(|e| e.to_string())?;
        match c.call_with_formats("/_svs/next", repe::QueryFormat::JsonPointer as u16, Some(&body), repe::BodyFormat::Beve as u16) {
            Ok(r) => Ok((r.body.clone(), r.query.first().copied() == Some(1))),
            Err(e) => Err(e.to_string()),
        }
    }
    let router = repe::Router::new().with_reader_stream(
        |resource: &str| match resource {
            "a" => Some(std::io::Cursor::new(vec![0xAAu8; 4])),
            "b" => Some(std::io::Cursor::new((0u8..12).collect::<Vec<u8>>())),
            _ => None,
        },
        StreamOpts { chunk_bytes: 4, compression: Compression::None, zstd_level: 3, session_depth: 2 },
    );
    let server = repe::Server::new(router);
    let listener = server.listen("127.0.0.1:0").expect("bind");
    let addr = listener.local_addr().expect("addr");
    std::thread::spawn(move || {
        let _ = server.serve(listener);
    });
    let client = repe::Client::connect(addr).expect("connect");
    let mut rounds = 0;
    for _ in 0..3 {
        let a = open(&client, "a")?;
        let (chunk, last) = next(&client, a).map_err(|e| format!("stream A: {e}"))?;
        if chunk != vec![0xAAu8; 4] || !last {
            return Ok(format!("inconclusive: the 4-byte stream did not arrive as one final chunk ({} bytes, last={last})", chunk.len()));
        }
        let b = open(&client, "b")?;
        if let Ok((chunk, last)) = next(&client, a) {
            return Err(format!("stream {a} was pulled to its end marker, then stream {b} was opened; a further pull on the finished stream {a} returned a chunk ({} bytes, last={last}) instead of an error", chunk.len()));
        }
        let mut got = Vec::new();
        let mut ends = 0;
        for _ in 0..4 {
            let (chunk, last) = next(&client, b).map_err(|e| format!("the later stream {b} failed after a stale pull on {a}: {e}"))?;
            got.extend_from_slice(&chunk);
            if last { ends += 1; break; }
        }
        if got != (0u8..12).collect::<Vec<u8>>() || ends != 1 {
            return Err(format!("the later stream's consumer received {} of 12 bytes and {ends} end markers after a stale pull on an earlier stream", got.len()));
        }
        rounds += 1;
    }
    Ok(format!("{rounds} finish / open / stale-pull histories held"))
}

// ---------------------------------------------------------------------------------------------
// C19: a broadcast reports every targeted node exactly once, whatever the fleet size.
fn fleet_wide_broadcast(v: &Value) -> Result<String, String> {
    let sizes: Vec<usize> = v.get("sizes").and_then(|x| x.as_array()).map(|a| a.iter().map(|x| x.as_u64().unwrap() as usize).collect()).unwrap_or_else(|| vec![1, 63, 64, 65, 100, 130]);
    let rt = tokio::runtime::Builder::new_multi_thread().worker_threads(2).enable_all().build().unwrap();
    let mut out = Vec::new();
    for n in sizes {
        // port 1 on localhost: connection refused at once
        let mut nodes = Vec::new();
        for i in 0..n {
            let mut c = repe::NodeConfig::new("127.0.0.1", 1).unwrap().with_name(format!("n{i}")).unwrap().with_timeout(Duration::from_millis(200)).unwrap();
            if i % 3 == 0 {
                c = c.with_tags(["third".to_string()]);
            }
            nodes.push(c);
        }
        let opts = repe::FleetOptions { retry_policy: repe::RetryPolicy { max_attempts: 1, delay: Duration::from_millis(0) }, ..Default::default() };
        let fleet = match repe::Fleet::with_options(nodes.clone(), opts) {
            Ok(f) => f,
            Err(e) => return Ok(format!("inconclusive: fleet construction failed: {e}")),
        };
        let afleet = match repe::AsyncFleet::with_options(nodes, opts) {
            Ok(f) => f,
            Err(e) => return Ok(format!("inconclusive: fleet construction failed: {e}")),
        };
        // nodes added later on the same host are nodes of their own
        for j in 0..3 {
            let c = repe::NodeConfig::new("127.0.0.1", 1).unwrap().with_name(format!("n{}", n + j)).unwrap().with_timeout(Duration::from_millis(200)).unwrap().with_tags(["late".to_string()]);
            fleet.add_node(c.clone()).map_err(|e| format!("Fleet::add_node: {e}"))?;
            rt.block_on(afleet.add_node(c)).map_err(|e| format!("AsyncFleet::add_node: {e}"))?;
        }
        let n0 = n;
        let n = n + 3;
        for (what, got) in [("Fleet", fleet.broadcast_json("/x", None, &["late"]).len()), ("AsyncFleet", rt.block_on(afleet.broadcast_json("/x", None, &["late"])).len())] {
            if got != 3 {
                return Err(format!("{what}: three nodes were added with add_node under the tag `late`; a broadcast to that tag addressed {got}"));
            }
        }
        let aall = rt.block_on(afleet.broadcast_json("/x", None, &[] as &[&str]));
        if aall.len() != n {
            return Err(format!("AsyncFleet broadcast to a fleet of {n} nodes reported {} nodes", aall.len()));
        }
        let mr: usize = fleet.map_reduce_json("/x", None, &[] as &[&str], |results| results.len());
        if mr != n {
            return Err(format!("Fleet::map_reduce_json over a fleet of {n} nodes reduced {mr} results"));
        }
        let all = fleet.broadcast_json("/x", None, &[] as &[&str]);
        if all.len() != n || (0..n).any(|i| !all.contains_key(&format!("n{i}"))) {
            let missing: Vec<String> = (0..n).filter(|i| !all.contains_key(&format!("n{i}"))).map(|i| format!("n{i}")).take(5).collect();
            return Err(format!("broadcast to a fleet of {n} nodes reported {} nodes; missing e.g. {missing:?}", all.len()));
        }
        let third = fleet.broadcast_json("/x", None, &["third"]);
        let want = (0..n0).filter(|i| i % 3 == 0).count();
        if third.len() != want {
            return Err(format!("broadcast to tag `third` in a fleet of {n} reported {} of {want} nodes", third.len()));
        }
        out.push(format!("{n}:{}", all.len()));
    }
    rt.shutdown_background();
    Ok(out.join(" "))
}

// ---------------------------------------------------------------------------------------------
// C18: a broadcast delivers the given path, body and format unchanged to every peer present.
// Bounded: 3 peers, 4 body formats x 7 raw bodies (empty, ASCII, invalid UTF-8, NULs, 4 KiB), 3 JSON
// and BEVE values, 3 texts, 3 paths.
fn peer_broadcast_payloads() -> Result<String, String> {
    use std::sync::Mutex;
    type Hit = (u64, String, Vec<u8>, u16);
    struct Rec {
        id: u64,
        hits: Arc<Mutex<Vec<Hit>>>,
    }
    impl repe::PeerSink for Rec {
        // peer 3's transport reports closed: it is still PRESENT in the registry, so a broadcast addresses it and reports its result
        fn is_connected(&self) -> bool {
            self.id != 3
        }
        fn send_notify(&self, method: &str, body: repe::NotifyBody) -> Result<(), repe::PeerSendError> {
            let fmt = body.body_format() as u16;
            let via_ref = body.as_bytes().to_vec();
            let bytes = body.into_bytes();
            assert!(via_ref == bytes, "NotifyBody::as_bytes and into_bytes disagree");
            self.hits.lock().unwrap().push((self.id, method.to_string(), bytes, fmt));
            Ok(())
        }
    }
    let reg = repe::PeerRegistry::new();
    let hits: Arc<Mutex<Vec<Hit>>> = Arc::new(Mutex::new(Vec::new()));
    for id in 1..=3u64 {
        reg.insert(repe::PeerHandle::new(repe::PeerId(id), Arc::new(Rec { id, hits: hits.clone() })));
    }
    let check = |what: &str, path: &str, want: &[u8], fmt: u16, nres: usize| -> Result<(), String> {
        let mut h = std::mem::take(&mut *hits.lock().unwrap());
        h.sort();
        if nres != 3 || h.len() != 3 || h.iter().map(|x| x.0).collect::<Vec<_>>() != vec![1, 2, 3] {
            return Err(format!("{what}: {nres} results and deliveries to {:?}, 3 peers present", h.iter().map(|x| x.0).collect::<Vec<_>>()));
        }
        for (id, m, b, f) in &h {
            if m != path || b.as_slice() != want || *f != fmt {
                return Err(format!(
                    "{what}: peer {id} was handed path {m:?}, format {f}, body {:02x?}; the broadcast was given path {path:?}, format {fmt}, body {:02x?}",
                    &b[..b.len().min(24)],
                    &want[..want.len().min(24)]
                ));
            }
        }
        Ok(())
    };
    let mut n = 0;
    let big: Vec<u8> = (0..4096u32).map(|i| (i * 31 + 7) as u8).collect();
    let raws: Vec<Vec<u8>> = vec![vec![], b"plain".to_vec(), vec![0xff, 0xfe, 0x00, 0x80], vec![0xc3, 0x28], vec![0, 0, 0], "h\u{e9}llo".as_bytes().to_vec(), big];
    for path in ["/evt", "", "/a/b~0c"] {
        for fmt in [repe::BodyFormat::RawBinary, repe::BodyFormat::Beve, repe::BodyFormat::Json, repe::BodyFormat::Utf8] {
            for body in &raws {
                let res = reg.broadcast_notify_raw(path, fmt, body);
                check(&format!("broadcast_notify_raw({path:?}, {fmt:?}, {} bytes)", body.len()), path, body, fmt as u16, res.len())?;
                n += 1;
            }
        }
        for val in [json!(null), json!({"a": [1, 2, {"b": "x"}]}), json!("text")] {
            let res = reg.broadcast_notify_json(path, &val).map_err(|e| e.to_string())?;
            check(&format!("broadcast_notify_json({path:?}, {val})"), path, &serde_json::to_vec(&val).unwrap(), 2, res.len())?;
            let res = reg.broadcast_notify_beve(path, &val).map_err(|e| e.to_string())?;
            check(&format!("broadcast_notify_beve({path:?}, {val})"), path, &beve::to_vec(&val).unwrap(), 1, res.len())?;
            n += 2;
        }
        // a body whose encoding fails part-way (a field serialized, then an error) must leave nothing behind: no delivery for the
        // failed broadcast, and the next broadcast carries exactly its own body (a multi-step history: ok, failed, ok)
        {
            struct HalfThenFail;
            impl serde::Serialize for HalfThenFail {
                fn serialize<S: serde::Serializer>(&self, s: S) -> Result<S::Ok, S::Error> {
                    use serde::ser::SerializeMap;
                    let mut m = s.serialize_map(Some(2))?;
                    m.serialize_entry("ok", &1)?;
                    Err(serde::ser::Error::custom("second field cannot be encoded"))
                }
            }
            for round in 0..2 {
                if reg.broadcast_notify_json(path, &HalfThenFail).is_ok() {
                    return Err(format!("broadcast_notify_json({path:?}) of a body that fails to encode reported success"));
                }
                if !hits.lock().unwrap().is_empty() {
                    return Err(format!("broadcast_notify_json({path:?}) of a body that fails to encode still notified peers"));
                }
                let val = json!({"n": 2 + round});
                let res = reg.broadcast_notify_json(path, &val).map_err(|e| e.to_string())?;
                check(&format!("broadcast_notify_json({path:?}, {val}) after a broadcast whose body failed to encode"), path, &serde_json::to_vec(&val).unwrap(), 2, res.len())?;
                if reg.broadcast_notify_beve(path, &HalfThenFail).is_ok() {
                    return Err(format!("broadcast_notify_beve({path:?}) of a body that fails to encode reported success"));
                }
                if !hits.lock().unwrap().is_empty() {
                    return Err(format!("broadcast_notify_beve({path:?}) of a body that fails to encode still notified peers"));
                }
                let res = reg.broadcast_notify_beve(path, &val).map_err(|e| e.to_string())?;
                check(&format!("broadcast_notify_beve({path:?}, {val}) after a broadcast whose body failed to encode"), path, &beve::to_vec(&val).unwrap(), 1, res.len())?;
                n += 4;
            }
        }
        for text in ["", "x", "h\u{e9}llo \u{1F600}"] {
            let res = reg.broadcast_notify_utf8(path, text);
            check(&format!("broadcast_notify_utf8({path:?}, {text:?})"), path, text.as_bytes(), 3, res.len())?;
            n += 1;
        }
    }
    Ok(format!("{n} broadcasts delivered path, body and format unchanged to 3 peers"))
}

// ---------------------------------------------------------------------------------------------
// C14 at the message level: what a request body means to a mounted registry. An empty body is a
// read and never mutates; any non-empty body (also one that decodes to null / false / 0 / "") is a
// write of exactly the decoded value, or exactly one call of a callable with exactly that value.
// Bounded: 2 mounts ("" and "/reg"), 4 body formats, 12 values.
fn registry_message_bodies() -> Result<String, String> {
    use std::sync::Mutex;
    let values = [json!(null), json!(false), json!(0), json!(""), json!([]), json!({}), json!(true), json!(7), json!("s"), json!([1, null]), json!({"a": null}), json!({"k": {"n": [1, 2]}})];
    let mut n = 0;
    for mount in ["", "/reg"] {
        for fmt in [repe::BodyFormat::Json, repe::BodyFormat::Beve, repe::BodyFormat::Utf8, repe::BodyFormat::RawBinary] {
            for val in &values {
                let (bytes, decoded): (Vec<u8>, Value) = match fmt {
                    repe::BodyFormat::Json => (serde_json::to_vec(val).unwrap(), val.clone()),
                    repe::BodyFormat::Beve => {
                        let b = beve::to_vec(val).unwrap();
                        let back: Value = beve::from_slice(&b).unwrap();
                        (b, back)
                    }
                    repe::BodyFormat::Utf8 => {
                        let t = val.to_string();
                        (t.clone().into_bytes(), Value::String(t))
                    }
                    _ => {
                        let t = val.to_string().into_bytes();
                        (t.clone(), Value::Array(t.iter().map(|b| Value::from(*b)).collect()))
                    }
                };
                let registry = Arc::new(repe::Registry::new());
                registry.register_value("/slot", json!({"keep": 1})).map_err(|e| e.to_string())?;
                registry.register_value("/other", json!(7)).map_err(|e| e.to_string())?;
                let seen: Arc<Mutex<Vec<Option<Value>>>> = Arc::new(Mutex::new(Vec::new()));
                let seen2 = seen.clone();
                registry
                    .register_function("/fun", move |params: Option<Value>| {
                        seen2.lock().unwrap().push(params);
                        Ok(json!("done"))
                    })
                    .map_err(|e| e.to_string())?;
                let router = repe::Router::new().with_registry(mount, Arc::clone(&registry));
                let ctx = format!("mount {mount:?}, body format {fmt:?}, body {:?}", String::from_utf8_lossy(&bytes));
                let req = |id: u64, path: &str, body: Option<&[u8]>| {
                    let mut b = repe::Message::builder().id(id).query_str(&format!("{mount}{path}")).query_format(repe::QueryFormat::JsonPointer).body_format(fmt);
                    if let Some(x) = body {
                        b = b.body_bytes(x.to_vec());
                    }
                    b.build()
                };
                // the decoder itself
                let m = req(1, "/slot", Some(&bytes));
                match repe::Registry::decode_body(&m) {
                    Ok(Some(d)) if d == decoded => {}
                    other => return Err(format!("{ctx}: Registry::decode_body gave {other:?}; a non-empty body decodes to Some({decoded})")),
                }
                if !matches!(repe::Registry::decode_body(&req(1, "/slot", None)), Ok(None)) {
                    return Err(format!("{ctx}: Registry::decode_body of an empty body is not None"));
                }
                let h = router.get(&format!("{mount}/slot")).ok_or_else(|| format!("{ctx}: no handler for the mounted registry"))?;
                // empty body: a read, no mutation
                let r0 = h.handle(&req(2, "/slot", None)).map_err(|e| format!("{ctx}: read failed: {e}"))?;
                if r0.header.ec != 0 || r0.json_body::<Value>().ok() != Some(json!({"keep": 1})) {
                    return Err(format!("{ctx}: an empty-body request did not read the stored value"));
                }
                // non-empty body: a write of the decoded value
                let w = h.handle(&m).map_err(|e| format!("{ctx}: write failed: {e}"))?;
                if w.header.ec != 0 || w.json_body::<Value>().ok() != Some(json!({"status": "ok", "path": "/slot"})) {
                    return Err(format!("{ctx}: a non-empty body was not acknowledged as a write: ec {} body {:?}", w.header.ec, String::from_utf8_lossy(&w.body)));
                }
                let r1 = h.handle(&req(3, "/slot", None)).map_err(|e| format!("{ctx}: read failed: {e}"))?;
                if r1.json_body::<Value>().ok() != Some(decoded.clone()) || registry.read_value("/slot").ok() != Some(decoded.clone()) {
                    return Err(format!("{ctx}: wrote {decoded}, the next read returned {:?}", String::from_utf8_lossy(&r1.body)));
                }
                if registry.read_value("/other").ok() != Some(json!(7)) {
                    return Err(format!("{ctx}: the write changed an unrelated pointer"));
                }
                // callable: exactly once, with the supplied body, only for a non-empty body
                let hf = router.get(&format!("{mount}/fun")).ok_or_else(|| format!("{ctx}: no handler for the callable"))?;
                let _ = hf.handle(&req(4, "/fun", None));
                if !seen.lock().unwrap().is_empty() {
                    return Err(format!("{ctx}: an empty-body request invoked the callable"));
                }
                let c = hf.handle(&req(5, "/fun", Some(&bytes))).map_err(|e| format!("{ctx}: call failed: {e}"))?;
                let s = seen.lock().unwrap().clone();
                if s != vec![Some(decoded.clone())] || c.json_body::<Value>().ok() != Some(json!("done")) {
                    return Err(format!("{ctx}: the callable saw {s:?}; exactly one call with Some({decoded}) was required (response ec {})", c.header.ec));
                }
                n += 1;
            }
        }
    }
    Ok(format!("{n} body/format/mount combinations read, wrote and called as a JSON document would"))
}

// ---------------------------------------------------------------------------------------------
// C17: an oversized notification (handler-pushed or broadcast) is dropped and reported, the reply
// queued behind it still arrives and the connection stays usable; notifications at the limit are
// delivered unchanged. One scenario over an in-memory duplex stream, limit 4096. A failed
// expectation panics; the parent classifies the panic as the violation.
mod ws_oversized_notify {
    // Cargo features needed: websocket
    //! C17 demo: a notification one byte over the assumed peer frame limit
    //! (pushed by a handler, or broadcast through the peer registry) is dropped
    //! and reported, nothing over the limit is sent, a notification exactly at the
    //! limit is delivered unchanged, and the connection stays usable: the response
    //! queued right behind the dropped notification still arrives, and so does
    //! the next exchange.

    use std::sync::Arc;
    use std::sync::atomic::{AtomicUsize, Ordering};
    use std::time::Duration;

    use futures_util::{SinkExt, StreamExt};
    use repe::server::Router;
    use repe::tokio_tungstenite::WebSocketStream;
    use repe::tokio_tungstenite::tungstenite::Message as WsMessage;
    use repe::tokio_tungstenite::tungstenite::protocol::Role;
    use repe::{
        ConnectionError, ErrorCode, Message, NotifyBody, PeerRegistry, QueryFormat, WebSocketLimits,
        WebSocketServer,
    };
    use serde_json::{Value, json};

    const HEADER: usize = 48;
    const NOTIFY_PATH: &str = "/progress";
    const LIMIT: usize = 4096;

    type Raw = WebSocketStream<tokio::io::DuplexStream>;

    fn request(id: u64, total: usize) -> Vec<u8> {
        Message::builder()
            .id(id)
            .query_format(QueryFormat::JsonPointer)
            .query_str("/push")
            .body_json(&json!({ "total": total }))
            .expect("body")
            .build()
            .into_wire_bytes()
    }

    async fn next_binary(raw: &mut Raw) -> Message {
        let frame = tokio::time::timeout(Duration::from_secs(60), raw.next())
            .await
            .expect("a frame must arrive")
            .expect("the connection must stay open")
            .expect("frame is not a transport error");
        match frame {
            WsMessage::Binary(bytes) => {
                assert!(
                    bytes.len() <= LIMIT,
                    "nothing over the limit may be sent, saw {} bytes",
                    bytes.len()
                );
                let msg = Message::from_slice_exact(&bytes).expect("decode");
                assert_eq!(msg.serialized_len(), bytes.len());
                msg
            }
            other => panic!("expected a binary REPE frame, got {other:?}"),
        }
    }

    pub async fn scenario() {
        // `/push {total}` pushes a `/progress` notify whose framed size is exactly
        // `total` to the calling peer, then answers normally.
        let router = Router::new().with_json_ctx("/push", |ctx, params: Value| {
            let total = params["total"].as_u64().unwrap() as usize;
            let body = "n".repeat(total - HEADER - NOTIFY_PATH.len());
            ctx.peer()
                .expect("websocket dispatch carries the peer")
                .send_notify(NOTIFY_PATH, NotifyBody::Utf8(body))
                .expect("queued");
            Ok(json!({ "pushed": total }))
        });

        let reported = Arc::new(AtomicUsize::new(0));
        let reported_h = Arc::clone(&reported);
        let reported_second = Arc::new(AtomicUsize::new(0));
        let reported_second_h = Arc::clone(&reported_second);
        let peers = PeerRegistry::new();
        let limits = WebSocketLimits::default().with_assumed_peer_frame_limit(Some(LIMIT));
        let shared = WebSocketServer::new(router)
            .with_limits(limits)
            .with_peer_registry(peers.clone())
            .on_error(move |err| {
                if let ConnectionError::OutboundTooLarge { size, limit, .. } = err {
                    assert!(size > limit);
                    reported_h.fetch_add(1, Ordering::SeqCst);
                }
            })
            // a second error callback: every registered callback hears of every drop
            .on_error(move |err| {
                if let ConnectionError::OutboundTooLarge { .. } = err {
                    reported_second_h.fetch_add(1, Ordering::SeqCst);
                }
            })
            .into_shared();

        let (server_io, client_io) = tokio::io::duplex(256 * 1024);
        let ws = shared.adopt_upgraded(server_io).await;
        tokio::spawn(async move { shared.serve_connection(ws).await });
        let mut raw: Raw = WebSocketStream::from_raw_socket(client_io, Role::Client, None).await;

        // Exactly at the limit: the notify is delivered unchanged, then the reply.
        raw.send(WsMessage::Binary(request(1, LIMIT))).await.unwrap();
        let notify = next_binary(&mut raw).await;
        assert_eq!(notify.header.notify, 1);
        assert_eq!(notify.query_str().unwrap(), NOTIFY_PATH);
        assert_eq!(notify.serialized_len(), LIMIT);
        assert!(notify.body.iter().all(|b| *b == b'n'));
        let reply = next_binary(&mut raw).await;
        assert_eq!((reply.header.id, reply.header.ec), (1, ErrorCode::Ok as u32));
        assert_eq!(reported.load(Ordering::SeqCst), 0);

        // One byte, two bytes, and far over: the notify is dropped and reported;
        // the reply queued right behind it is the next thing on the wire.
        for (k, total) in [LIMIT + 1, LIMIT + 2, 3 * LIMIT].into_iter().enumerate() {
            let id = 10 + k as u64;
            raw.send(WsMessage::Binary(request(id, total))).await.unwrap();
            let reply = next_binary(&mut raw).await;
            assert_eq!(reply.header.notify, 0, "the oversized notify must not be sent");
            assert_eq!((reply.header.id, reply.header.ec), (id, ErrorCode::Ok as u32));
            let body: Value = reply.json_body().unwrap();
            assert_eq!(body["pushed"], total);
            assert_eq!(reported.load(Ordering::SeqCst), k + 1, "dropped notify is reported");
        }

        // Same rule for a registry broadcast: oversized is dropped, a small one
        // after it still arrives on the same connection.
        let big = "b".repeat(LIMIT + 1 - HEADER - "/bcast".len());
        let sent = peers.broadcast_notify_utf8("/bcast", &big);
        assert_eq!(sent.len(), 1);
        assert!(sent.values().all(Result::is_ok));
        let sent = peers.broadcast_notify_utf8("/bcast", "small");
        assert!(sent.values().all(Result::is_ok), "peer still registered: {sent:?}");
        let small = next_binary(&mut raw).await;
        assert_eq!(small.header.notify, 1);
        assert_eq!(small.query_str().unwrap(), "/bcast");
        assert_eq!(small.body, b"small");
        assert_eq!(reported.load(Ordering::SeqCst), 4);
        assert_eq!(reported_second.load(Ordering::SeqCst), 4, "the second registered error callback was not told of every dropped notification");

        // And an ordinary exchange still works.
        raw.send(WsMessage::Binary(request(99, 100))).await.unwrap();
        let notify = next_binary(&mut raw).await;
        assert_eq!(notify.serialized_len(), 100);
        let reply = next_binary(&mut raw).await;
        assert_eq!(reply.header.id, 99);
    }
    pub fn run() -> Result<String, String> {
        let rt = tokio::runtime::Builder::new_multi_thread().worker_threads(2).enable_all().build().unwrap();
        rt.block_on(scenario());
        rt.shutdown_background();
        Ok("notifications of 4096 bytes delivered, 4097 / 4098 / 12288 bytes and an oversized broadcast dropped and reported, every reply arrived".into())
    }
}

// ---------------------------------------------------------------------------------------------
// C15: a connection's disconnect callbacks run, and its peer leaves the registry, when THAT
// connection ends -- not when a sibling accepted by the same graceful-drain listener ends. One
// scenario: connections A, B under serve_listener_with_graceful_drain; A closes; B must stay
// registered and served; C connects afterwards and is served; shutdown ends B and C exactly once.
mod ws_drain_siblings {
    // Cargo features needed: websocket
    //! C15 with several concurrent connections under the graceful-drain accept
    //! loop: each connection's disconnect callbacks run exactly once, *when that
    //! connection ends*, and its peer stays in the registry until then. One
    //! connection's clean close must not end its siblings.

    use std::sync::atomic::{AtomicUsize, Ordering};
    use std::sync::{Arc, Mutex};
    use std::time::{Duration, Instant};

    use repe::server::Router;
    use repe::{PeerId, PeerRegistry, WebSocketClient, WebSocketServer};
    use serde_json::json;
    use tokio::net::TcpListener;
    use tokio::sync::oneshot;

    async fn wait_until(what: &str, limit: Duration, cond: impl Fn() -> bool) {
        let deadline = Instant::now() + limit;
        while Instant::now() < deadline {
            if cond() {
                return;
            }
            tokio::time::sleep(Duration::from_millis(5)).await;
        }
        panic!("timed out waiting for: {what}");
    }

    pub async fn scenario() {
        let peers = PeerRegistry::new();
        let connected = Arc::new(Mutex::new(Vec::<PeerId>::new()));
        let disconnected = Arc::new(Mutex::new(Vec::<PeerId>::new()));
        let disconnect_count = Arc::new(AtomicUsize::new(0));

        let router = Router::new().with_json("/ping", |_| Ok(json!({ "ok": true })));
        let server = WebSocketServer::new(router)
            .with_peer_registry(peers.clone())
            .on_peer_connect({
                let connected = connected.clone();
                move |peer| connected.lock().unwrap().push(peer.peer_id())
            })
            .on_peer_disconnect({
                let disconnected = disconnected.clone();
                let disconnect_count = disconnect_count.clone();
                move |id| {
                    disconnected.lock().unwrap().push(id);
                    disconnect_count.fetch_add(1, Ordering::SeqCst);
                }
            });

        let listener = TcpListener::bind(("127.0.0.1", 0)).await.unwrap();
        let addr = listener.local_addr().unwrap();
        let (shutdown_tx, shutdown_rx) = oneshot::channel::<()>();
        let serve = tokio::spawn(async move {
            server
                .serve_listener_with_graceful_drain(
                    listener,
                    "/repe",
                    async {
                        let _ = shutdown_rx.await;
                    },
                    Duration::from_secs(2),
                )
                .await
        });

        let url = format!("ws://{addr}/repe");
        let a = WebSocketClient::connect(&url).await.unwrap();
        a.call_json("/ping", &json!({})).await.unwrap();
        let b = WebSocketClient::connect(&url).await.unwrap();
        b.call_json("/ping", &json!({})).await.unwrap();
        let (id_a, id_b) = {
            let ids = connected.lock().unwrap();
            assert_eq!(ids.len(), 2);
            (ids[0], ids[1])
        };
        assert_eq!(peers.len(), 2);

        // Connection A ends by a clean close. Nothing else happens: no shutdown
        // was requested and B's client is still attached.
        drop(a);
        wait_until("A's disconnect callback", Duration::from_secs(60), || {
            disconnect_count.load(Ordering::SeqCst) >= 1
        })
        .await;
        tokio::time::sleep(Duration::from_millis(300)).await;

        assert_eq!(
            disconnected.lock().unwrap().clone(),
            vec![id_a],
            "only the connection that ended may have had its disconnect callbacks run"
        );
        assert!(peers.get(id_a).is_none(), "A is gone from the registry");
        assert!(
            peers.get(id_b).is_some(),
            "B has not ended, so its peer must still be in the registry"
        );
        b.call_json("/ping", &json!({}))
            .await
            .expect("B's connection is still being served");

        // A connection accepted afterwards lives until *it* ends, too.
        let c = WebSocketClient::connect(&url).await.unwrap();
        c.call_json("/ping", &json!({})).await.unwrap();
        tokio::time::sleep(Duration::from_millis(200)).await;
        c.call_json("/ping", &json!({}))
            .await
            .expect("C's connection is still being served");
        let id_c = *connected.lock().unwrap().last().unwrap();
        assert!(peers.get(id_c).is_some());
        assert_eq!(disconnect_count.load(Ordering::SeqCst), 1);

        // Now the embedder shuts down: the drain ends B and C, once each.
        shutdown_tx.send(()).unwrap();
        let result = tokio::time::timeout(Duration::from_secs(60), serve)
            .await
            .expect("graceful drain did not return")
            .expect("serve task panicked");
        assert!(result.is_ok());
        wait_until("B and C disconnected", Duration::from_secs(60), || {
            disconnect_count.load(Ordering::SeqCst) >= 3
        })
        .await;
        let mut ended = disconnected.lock().unwrap().clone();
        ended.sort_by_key(|id| id.0);
        let mut expected = vec![id_a, id_b, id_c];
        expected.sort_by_key(|id| id.0);
        assert_eq!(ended, expected, "each connection disconnected exactly once");
        assert!(peers.is_empty());
        drop((b, c));
    }
    pub fn run() -> Result<String, String> {
        let rt = tokio::runtime::Builder::new_multi_thread().worker_threads(4).enable_all().build().unwrap();
        rt.block_on(scenario());
        rt.shutdown_background();
        Ok("A ended alone; B and C stayed registered and served until shutdown; three disconnects in all".into())
    }
}

// ---------------------------------------------------------------------------------------------
// C01, client side: the same logical request leaves the blocking, the async and the WebSocket
// client as the same frame (all fields but the id), and that frame is what the builder produces
// for it. Bounded: 12 operations (notify / call with explicit format codes, with and without a
// body, JSON helpers) on each client against capturing peers.
fn client_emission_parity() -> Result<String, String> {
    use futures_util::{SinkExt, StreamExt};
    use repe::tokio_tungstenite::tungstenite::Message as WsMessage;
    use std::io::Write as _;
    type Frame = (u8, u16, u16, u32, u32, Vec<u8>, Vec<u8>);
    fn shape(m: &repe::Message) -> Frame {
        (m.header.notify, m.header.query_format, m.header.body_format, m.header.ec, m.header.reserved, m.query.clone(), m.body.clone())
    }
    fn answer(id: u64) -> repe::Message {
        repe::Message::builder().id(id).body_json(&json!({"ok": true})).unwrap().build()
    }
    // capturing TCP peer
    let listener = std::net::TcpListener::bind("127.0.0.1:0").map_err(|e| e.to_string())?;
    let addr = listener.local_addr().unwrap();
    let (tx, rx) = std::sync::mpsc::channel::<(usize, repe::Message)>();
    std::thread::spawn(move || {
        for (n, conn) in listener.incoming().enumerate() {
            let Ok(stream) = conn else { break };
            let tx = tx.clone();
            std::thread::spawn(move || {
                let mut reader = std::io::BufReader::new(stream.try_clone().unwrap());
                let mut writer = std::io::BufWriter::new(stream);
                while let Ok(req) = repe::read_message(&mut reader) {
                    let (id, notify) = (req.header.id, req.header.notify);
                    let _ = tx.send((n, req));
                    if notify == 0 && (repe::write_message(&mut writer, &answer(id)).is_err() || writer.flush().is_err()) {
                        break;
                    }
                }
            });
        }
    });
    let rt = tokio::runtime::Builder::new_multi_thread().worker_threads(2).enable_all().build().unwrap();
    // capturing WebSocket peer
    let (wtx, wrx) = std::sync::mpsc::channel::<repe::Message>();
    let waddr = rt.block_on(async {
        let l = tokio::net::TcpListener::bind("127.0.0.1:0").await.unwrap();
        let a = l.local_addr().unwrap();
        tokio::spawn(async move {
            let Ok((stream, _)) = l.accept().await else { return };
            let Ok(mut ws) = repe::tokio_tungstenite::accept_async(stream).await else { return };
            while let Some(Ok(frame)) = ws.next().await {
                if let WsMessage::Binary(b) = frame {
                    let Ok(m) = repe::Message::from_slice_exact(&b) else { break };
                    let (id, notify) = (m.header.id, m.header.notify);
                    let _ = wtx.send(m);
                    if notify == 0 && ws.send(WsMessage::Binary(answer(id).to_vec().into())).await.is_err() {
                        break;
                    }
                }
            }
        });
        a
    });
    let client = repe::Client::connect(addr).map_err(|e| e.to_string())?;
    let aclient = rt.block_on(repe::AsyncClient::connect(addr)).map_err(|e| e.to_string())?;
    let wclient = rt.block_on(repe::WebSocketClient::connect(&format!("ws://{waddr}/repe"))).map_err(|e| e.to_string())?;
    let raw: [(&str, u16, Option<&[u8]>, u16); 8] = [
        ("/n", 1, Some(b"abc"), 0),
        ("/n2", 1, Some(b"{\"a\":1}"), 2),
        ("/n3", 0, Some(b"xyz"), 3),
        ("/n4", 7, Some(&[1, 2, 3]), 9),
        ("/n5", 1, None, 2),
        ("/n6", 2, Some(b"q"), 1),
        ("", 1, Some(b"root"), 0),
        ("/n8", 1, Some(b""), 3),
    ];
    let e = |x: repe::RepeError| x.to_string();
    // the reference: what the builder produces for the same logical message
    let mut want: Vec<Frame> = Vec::new();
    for (path, qf, body, bf) in raw {
        for notify in [true, false] {
            let mut b = repe::Message::builder().notify(notify).query_str(path).query_format_code(qf).body_format_code(bf);
            if let Some(x) = body {
                b = b.body_bytes(x.to_vec());
            }
            want.push(shape(&b.build()));
        }
    }
    let val = json!({"k": [1, 2, {"z": null}]});
    // typed helpers and their with_timeout twins: JSON twice, BEVE twice
    for _ in 0..2 {
        want.push(shape(&repe::Message::builder().query_str("/tj").query_format(repe::QueryFormat::JsonPointer).body_json(&val).unwrap().build()));
    }
    for _ in 0..2 {
        want.push(shape(&repe::Message::builder().query_str("/tb").query_format(repe::QueryFormat::JsonPointer).body_beve(&val).unwrap().build()));
    }
    // the remaining wrappers: call_message(_with_timeout), call_with_formats_and_timeout, call_json_with_timeout, notify_typed_json / _beve
    for _ in 0..2 {
        want.push(shape(&repe::Message::builder().query_str("/m").query_format(repe::QueryFormat::JsonPointer).body_format(repe::BodyFormat::RawBinary).build()));
    }
    want.push(shape(&repe::Message::builder().query_str("/cf").query_format_code(1).body_format_code(2).body_bytes(b"[7]".to_vec()).build()));
    want.push(shape(&repe::Message::builder().query_str("/jt").query_format(repe::QueryFormat::JsonPointer).body_json(&val).unwrap().build()));
    want.push(shape(&repe::Message::builder().notify(true).query_str("/ntj").query_format(repe::QueryFormat::JsonPointer).body_json(&val).unwrap().build()));
    want.push(shape(&repe::Message::builder().notify(true).query_str("/ntb").query_format(repe::QueryFormat::JsonPointer).body_beve(&val).unwrap().build()));
    want.push(shape(&repe::Message::builder().query_str("/j").query_format(repe::QueryFormat::JsonPointer).body_json(&val).unwrap().build()));
    want.push(shape(&repe::Message::builder().notify(true).query_str("/nj").query_format(repe::QueryFormat::JsonPointer).body_json(&val).unwrap().build()));
    let mut seen: Vec<(&str, Vec<Frame>)> = Vec::new();
    for which in ["blocking", "async", "websocket"] {
        for (path, qf, body, bf) in raw {
            match which {
                "blocking" => {
                    client.notify_with_formats(path, qf, body, bf).map_err(e)?;
                    client.call_with_formats(path, qf, body, bf).map_err(e)?;
                }
                "async" => {
                    rt.block_on(aclient.notify_with_formats(path, qf, body, bf)).map_err(e)?;
                    rt.block_on(aclient.call_with_formats(path, qf, body, bf)).map_err(e)?;
                }
                _ => {
                    rt.block_on(wclient.notify_with_formats(path, qf, body, bf)).map_err(e)?;
                    rt.block_on(wclient.call_with_formats(path, qf, body, bf)).map_err(e)?;
                }
            }
        }
        {
            // the peer answers {"ok":true} as JSON; a typed BEVE call cannot decode that, which is irrelevant here: only the request frame is compared
            let t = Duration::from_secs(30);
            match which {
                "blocking" => {
                    let _ = client.call_typed_json::<_, _, Value>("/tj", &val);
                    let _ = client.call_typed_json_with_timeout::<_, _, Value>("/tj", &val, t);
                    let _ = client.call_typed_beve::<_, _, Value>("/tb", &val);
                    let _ = client.call_typed_beve_with_timeout::<_, _, Value>("/tb", &val, t);
                }
                "async" => {
                    let _ = rt.block_on(aclient.call_typed_json::<_, _, Value>("/tj", &val));
                    let _ = rt.block_on(aclient.call_typed_json_with_timeout::<_, _, Value>("/tj", &val, t));
                    let _ = rt.block_on(aclient.call_typed_beve::<_, _, Value>("/tb", &val));
                    let _ = rt.block_on(aclient.call_typed_beve_with_timeout::<_, _, Value>("/tb", &val, t));
                }
                _ => {
                    let _ = rt.block_on(wclient.call_typed_json::<_, _, Value>("/tj", &val));
                    let _ = rt.block_on(wclient.call_typed_json_with_timeout::<_, _, Value>("/tj", &val, t));
                    let _ = rt.block_on(wclient.call_typed_beve::<_, _, Value>("/tb", &val));
                    let _ = rt.block_on(wclient.call_typed_beve_with_timeout::<_, _, Value>("/tb", &val, t));
                }
            }
        }
        {
            let t = Duration::from_secs(30);
            match which {
                "blocking" => {
                    let _ = client.call_message("/m");
                    let _ = client.call_message_with_timeout("/m", t);
                    let _ = client.call_with_formats_and_timeout("/cf", 1, Some(b"[7]"), 2, t);
                    let _ = client.call_json_with_timeout("/jt", &val, t);
                    client.notify_typed_json("/ntj", &val).map_err(e)?;
                    client.notify_typed_beve("/ntb", &val).map_err(e)?;
                }
                "async" => {
                    let _ = rt.block_on(aclient.call_message("/m"));
                    let _ = rt.block_on(aclient.call_message_with_timeout("/m", t));
                    let _ = rt.block_on(aclient.call_with_formats_and_timeout("/cf", 1, Some(b"[7]"), 2, t));
                    let _ = rt.block_on(aclient.call_json_with_timeout("/jt", &val, t));
                    rt.block_on(aclient.notify_typed_json("/ntj", &val)).map_err(e)?;
                    rt.block_on(aclient.notify_typed_beve("/ntb", &val)).map_err(e)?;
                }
                _ => {
                    let _ = rt.block_on(wclient.call_message("/m"));
                    let _ = rt.block_on(wclient.call_message_with_timeout("/m", t));
                    let _ = rt.block_on(wclient.call_with_formats_and_timeout("/cf", 1, Some(b"[7]"), 2, t));
                    let _ = rt.block_on(wclient.call_json_with_timeout("/jt", &val, t));
                    rt.block_on(wclient.notify_typed_json("/ntj", &val)).map_err(e)?;
                    rt.block_on(wclient.notify_typed_beve("/ntb", &val)).map_err(e)?;
                }
            }
        }
        match which {
            "blocking" => {
                client.call_json("/j", &val).map_err(e)?;
                client.notify_json("/nj", &val).map_err(e)?;
                client.call_json("/fence", &json!(0)).map_err(e)?;
            }
            "async" => {
                rt.block_on(aclient.call_json("/j", &val)).map_err(e)?;
                rt.block_on(aclient.notify_json("/nj", &val)).map_err(e)?;
                rt.block_on(aclient.call_json("/fence", &json!(0))).map_err(e)?;
            }
            _ => {
                rt.block_on(wclient.call_json("/j", &val)).map_err(e)?;
                rt.block_on(wclient.notify_json("/nj", &val)).map_err(e)?;
                rt.block_on(wclient.call_json("/fence", &json!(0))).map_err(e)?;
            }
        }
        // everything up to the fence call has been read by the peer
        let mut frames = Vec::new();
        let mut ids = std::collections::HashSet::new();
        loop {
            let m = if which == "websocket" { wrx.recv_timeout(Duration::from_secs(30)).map_err(|_| "the WebSocket peer saw no frame".to_string())? } else { rx.recv_timeout(Duration::from_secs(30)).map_err(|_| "the TCP peer saw no frame".to_string())?.1 };
            if !ids.insert(m.header.id) {
                return Err(format!("{which} client: request id {} used twice on one connection", m.header.id));
            }
            if m.query == b"/fence" {
                break;
            }
            if m.header.length as usize != 48 + m.query.len() + m.body.len() || m.header.spec != 0x1507 || m.header.version != 1 {
                return Err(format!("{which} client: inconsistent header {:?}", m.header));
            }
            frames.push(shape(&m));
        }
        seen.push((which, frames));
    }
    rt.shutdown_background();
    for (which, frames) in &seen {
        if frames.len() != want.len() {
            return Err(format!("{which} client: the peer saw {} frames for {} operations", frames.len(), want.len()));
        }
        for (i, (got, w)) in frames.iter().zip(&want).enumerate() {
            if got != w {
                return Err(format!(
                    "{which} client, operation {i}: the frame on the wire (notify, query_format, body_format, ec, reserved, query, body) = {got:?} differs from the builder's frame for the same logical message {w:?}"
                ));
            }
        }
    }
    Ok(format!("{} operations x 3 clients emitted the builder's frame", want.len()))
}

// ---------------------------------------------------------------------------------------------
// C19: a transport failure never leaves the node wedged -- also when it happens on a health probe.
// One scenario per fleet flavour: a call connects; the node answers the next request (the health
// probe) with a corrupted frame; afterwards the node is healthy again. With max_attempts = 1 the
// next call has exactly one attempt, so it succeeds only if the dead connection was dropped.
fn fleet_health_probe_malformed() -> Result<String, String> {
    use std::io::Write as _;
    use std::sync::atomic::AtomicBool;
    let mut out = Vec::new();
    for use_async in [false, true] {
        let listener = std::net::TcpListener::bind("127.0.0.1:0").unwrap();
        let port = listener.local_addr().unwrap().port();
        let garble = Arc::new(AtomicBool::new(false));
        let conns = Arc::new(AtomicUsize::new(0));
        let (g, c) = (garble.clone(), conns.clone());
        std::thread::spawn(move || {
            for stream in listener.incoming() {
                let Ok(stream) = stream else { break };
                c.fetch_add(1, Ordering::SeqCst);
                let g = g.clone();
                std::thread::spawn(move || {
                    let mut reader = std::io::BufReader::new(stream.try_clone().unwrap());
                    let mut writer = std::io::BufWriter::new(stream);
                    while let Ok(req) = repe::read_message(&mut reader) {
                        let resp = repe::Message::builder().id(req.header.id).query_bytes(req.query.clone()).query_format_code(req.header.query_format).body_json(&json!({"ok": true})).unwrap().build();
                        let sent = if g.load(Ordering::SeqCst) {
                            let mut bytes = resp.to_vec();
                            bytes[8] ^= 0xff;
                            bytes[9] ^= 0xff;
                            writer.write_all(&bytes)
                        } else {
                            repe::write_message(&mut writer, &resp).map_err(std::io::Error::other)
                        };
                        if sent.is_err() || writer.flush().is_err() {
                            return;
                        }
                    }
                });
            }
        });
        let cfg = repe::NodeConfig::new("127.0.0.1", port).unwrap().with_name("n").unwrap().with_timeout(Duration::from_secs(2)).unwrap();
        let opts = repe::FleetOptions { retry_policy: repe::RetryPolicy { max_attempts: 1, delay: Duration::from_millis(10) }, ..Default::default() };
        let which = if use_async { "AsyncFleet" } else { "Fleet" };
        let rt = tokio::runtime::Builder::new_multi_thread().worker_threads(2).enable_all().build().unwrap();
        let (first, healthy, again) = if use_async {
            let f = repe::AsyncFleet::with_options(vec![cfg], opts).map_err(|e| e.to_string())?;
            let first = rt.block_on(f.call_json("n", "/work", Some(&json!({"i": 1})))).map_err(|e| e.to_string())?.succeeded();
            garble.store(true, Ordering::SeqCst);
            let h = rt.block_on(f.health_check("/health"));
            garble.store(false, Ordering::SeqCst);
            let again = rt.block_on(f.call_json("n", "/work", Some(&json!({"i": 2})))).map_err(|e| e.to_string())?;
            (first, h.get("n").map(|x| x.healthy), again.into_result().map_err(|e| e.to_string()))
        } else {
            let f = repe::Fleet::with_options(vec![cfg], opts).map_err(|e| e.to_string())?;
            let first = f.call_json("n", "/work", Some(&json!({"i": 1}))).map_err(|e| e.to_string())?.succeeded();
            garble.store(true, Ordering::SeqCst);
            let h = f.health_check("/health");
            garble.store(false, Ordering::SeqCst);
            let again = f.call_json("n", "/work", Some(&json!({"i": 2}))).map_err(|e| e.to_string())?;
            (first, h.get("n").map(|x| x.healthy), again.into_result().map_err(|e| e.to_string()))
        };
        rt.shutdown_background();
        if !first {
            return Ok(format!("inconclusive: the first call through {which} failed"));
        }
        if healthy != Some(false) {
            return Ok(format!("inconclusive: the garbled health probe was reported as {healthy:?}"));
        }
        if let Err(e) = again {
            return Err(format!("{which}: after a health probe was answered with a malformed frame the node is healthy again, yet the next call (max_attempts 1) failed with `{e}`: the dead connection was left cached, the node is wedged"));
        }
        out.push(format!("{which}: recovered on a new connection ({} connections)", conns.load(Ordering::SeqCst)));
    }
    Ok(out.join("; "))
}

// ---------------------------------------------------------------------------------------------
// C17, configuration: an endpoint built without explicit limits assumes the default peer frame
// limit (what an unconfigured peer accepts), so the outbound guard is on by default; explicit
// limits are what the endpoint then reports.
async fn ws_default_limits() -> Result<String, String> {
    let d = repe::WebSocketLimits::default();
    if d.assumed_peer_frame_limit != Some(repe::DEFAULT_MAX_FRAME_SIZE) || repe::DEFAULT_MAX_FRAME_SIZE != 16 << 20 {
        return Err(format!("WebSocketLimits::default() assumes a peer frame limit of {:?}; an unconfigured peer accepts 16 MiB", d.assumed_peer_frame_limit));
    }
    if repe::WebSocketLimits::unlimited().assumed_peer_frame_limit.is_some() {
        return Err("WebSocketLimits::unlimited() still carries an assumed peer limit".into());
    }
    let shared = repe::WebSocketServer::new(repe::Router::new().with_json("/ping", |_v: Value| Ok(json!("pong")))).into_shared();
    if shared.limits() != d {
        return Err(format!("a WebSocketServer built without with_limits() reports {:?}; the outbound guard must be on by default ({d:?})", shared.limits()));
    }
    let custom = repe::WebSocketLimits::default().with_assumed_peer_frame_limit(Some(4096));
    let s2 = repe::WebSocketServer::new(repe::Router::new()).with_limits(custom).into_shared();
    if s2.limits() != custom {
        return Err(format!("with_limits({custom:?}) is reported as {:?}", s2.limits()));
    }
    let listener = tokio::net::TcpListener::bind("127.0.0.1:0").await.map_err(|e| e.to_string())?;
    let addr = listener.local_addr().unwrap();
    let srv = tokio::spawn(async move {
        loop {
            let Ok((stream, _)) = listener.accept().await else { break };
            let shared = shared.clone();
            tokio::spawn(async move {
                if let Ok(ws) = repe::WebSocketServer::accept(stream, "/repe").await {
                    let _ = shared.serve_connection(ws).await;
                }
            });
        }
    });
    let url = format!("ws://{addr}/repe");
    let c = repe::WebSocketClient::connect(&url).await.map_err(|e| e.to_string())?;
    if c.limits() != d {
        return Err(format!("a WebSocketClient from plain connect() reports {:?}; the outbound guard must be on by default ({d:?})", c.limits()));
    }
    let c2 = repe::WebSocketClient::connect_with_limits(&url, custom).await.map_err(|e| e.to_string())?;
    if c2.limits() != custom {
        return Err(format!("connect_with_limits({custom:?}) is reported as {:?}", c2.limits()));
    }
    // and the guard acts on it: 4097 framed bytes fail locally, the connection stays usable
    let path = "/ping";
    let body = vec![b'x'; 4097 - 48 - path.len()];
    match c2.notify_with_formats(path, 1, Some(&body), 0).await {
        Err(repe::RepeError::MessageTooLarge { size: 4097, limit: 4096 }) => {}
        other => return Err(format!("a 4097-byte notify under an assumed peer limit of 4096 gave {other:?}")),
    }
    c2.call_json(path, &json!({})).await.map_err(|e| format!("the connection was not usable after a local refusal: {e}"))?;
    srv.abort();
    Ok("default-built server and client assume the 16 MiB default; explicit limits are kept and enforced".into())
}

// ---------------------------------------------------------------------------------------------
// C06, second half: a call that times out or is cancelled leaves nothing behind and the client
// keeps serving other calls. (a) WebSocket client with 1, 2 and 3 live handles: a call made through
// one handle is cancelled and that handle dropped; the remaining handles keep working. (b) blocking
// client with a write timeout configured: neither an idle pause nor a reply slower than that
// timeout fails the connection (a write timeout bounds writes only).
fn client_survives_cancel_and_idle() -> Result<String, String> {
    use futures_util::{SinkExt, StreamExt};
    use repe::tokio_tungstenite::tungstenite::Message as WsMessage;
    use std::io::Write as _;
    let rt = tokio::runtime::Builder::new_multi_thread().worker_threads(2).enable_all().build().unwrap();
    let ws_part: Result<usize, String> = rt.block_on(async {
        let mut n = 0;
        for extra_handles in [0usize, 1, 2] {
            let listener = tokio::net::TcpListener::bind(("127.0.0.1", 0)).await.map_err(|e| e.to_string())?;
            let addr = listener.local_addr().unwrap();
            let (seen_tx, mut seen_rx) = tokio::sync::mpsc::unbounded_channel::<String>();
            let server = tokio::spawn(async move {
                let Ok((stream, _)) = listener.accept().await else { return };
                let Ok(mut ws) = repe::tokio_tungstenite::accept_async(stream).await else { return };
                while let Some(Ok(frame)) = ws.next().await {
                    let payload = match frame {
                        WsMessage::Binary(p) => p,
                        WsMessage::Close(_) => break,
                        _ => continue,
                    };
                    let Ok(request) = repe::Message::from_slice_exact(&payload) else { break };
                    let path = request.query_utf8().to_string();
                    let _ = seen_tx.send(path.clone());
                    if path == "/slow" {
                        continue; // never answered
                    }
                    let response = repe::Message::builder().id(request.header.id).query_str(&path).query_format(repe::QueryFormat::JsonPointer).body_json(&json!({ "path": path })).unwrap().build();
                    if ws.send(WsMessage::Binary(response.to_vec().into())).await.is_err() {
                        break;
                    }
                }
            });
            let client = repe::WebSocketClient::connect(&format!("ws://{addr}/demo")).await.map_err(|e| e.to_string())?;
            let keep: Vec<repe::WebSocketClient> = (0..extra_handles).map(|_| client.clone()).collect();
            client.call_json("/warmup", &json!({})).await.map_err(|e| format!("warm-up call failed: {e}"))?;
            let _ = seen_rx.recv().await;
            let worker = client.clone();
            let cancelled = tokio::spawn(async move { worker.call_json("/slow", &json!({})).await });
            match tokio::time::timeout(Duration::from_secs(30), seen_rx.recv()).await {
                Ok(Some(p)) if p == "/slow" => {}
                _ => return Ok(n), // inconclusive set-up
            }
            cancelled.abort();
            let _ = cancelled.await;
            tokio::time::sleep(Duration::from_millis(300)).await;
            for (h, c) in std::iter::once(&client).chain(keep.iter()).enumerate() {
                match tokio::time::timeout(Duration::from_secs(30), c.call_json("/ok", &json!({ "h": h }))).await {
                    Ok(Ok(v)) if v["path"] == "/ok" => {}
                    other => return Err(format!("WebSocket client, {} live handles: after a call made through a further clone was cancelled (and that clone dropped), a call through handle {h} gave {other:?}; the client must keep serving other calls", 1 + extra_handles)),
                }
            }
            drop(keep);
            drop(client);
            let _ = tokio::time::timeout(Duration::from_secs(5), server).await;
            n += 1;
        }
        Ok(n)
    });
    rt.shutdown_background();
    let ws_cases = ws_part?;
    // (b) blocking client with a write timeout
    let listener = std::net::TcpListener::bind("127.0.0.1:0").map_err(|e| e.to_string())?;
    let addr = listener.local_addr().unwrap();
    std::thread::spawn(move || {
        for conn in listener.incoming() {
            let Ok(stream) = conn else { break };
            std::thread::spawn(move || {
                let mut reader = std::io::BufReader::new(stream.try_clone().unwrap());
                let mut writer = std::io::BufWriter::new(stream);
                while let Ok(req) = repe::read_message(&mut reader) {
                    if req.query == b"/late" {
                        std::thread::sleep(Duration::from_millis(700));
                    }
                    let resp = repe::Message::builder().id(req.header.id).body_json(&json!({"path": req.query_utf8()})).unwrap().build();
                    if repe::write_message(&mut writer, &resp).is_err() || writer.flush().is_err() {
                        break;
                    }
                }
            });
        }
    });
    let client = repe::Client::connect(addr).map_err(|e| e.to_string())?;
    client.set_write_timeout(Some(Duration::from_millis(250))).map_err(|e| e.to_string())?;
    let steps: [(&str, u64); 4] = [("/a", 0), ("/late", 0), ("/b", 800), ("/c", 0)];
    for (path, pause) in steps {
        std::thread::sleep(Duration::from_millis(pause));
        match client.call_json(path, &json!({})) {
            Ok(v) if v["path"] == path => {}
            other => return Err(format!("blocking client with set_write_timeout(250 ms): call {path} (after an idle pause of {pause} ms) gave {other:?}; a write timeout bounds writes, it must not fail a connection that is idle or waiting for a slow reply")),
        }
    }
    Ok(format!("{ws_cases} WebSocket handle counts and 4 blocking calls around a write timeout held"))
}

// ---------------------------------------------------------------------------------------------
// C09: a consumer that stops early releases the stream (the pullers send a cancel): pulling it
// afterwards is an error. Blocking (pull_consume over Client) and async (pull_consume_async over
// AsyncClient); the cancel is a notification, so the check polls up to 10 s for the release.
fn svs_early_stop_releases() -> Result<String, String> {
    use repe::value_stream::{Compression, RouterValueStreamExt, StreamOpts, ROUTE_NEXT};
    use std::io::Read as _;
    #[derive(serde::Serialize)]
    struct NextRequest {
        stream_id: u64,
    }
    let samples: Vec<f64> = (0..32 * 1024).map(|i| i as f64 * 0.25).collect();
    let served = samples.clone();
    let router = repe::Router::new().with_typed_value_stream(
        move |resource: &str| (resource == "samples").then(|| served.clone()),
        StreamOpts { chunk_bytes: 512, compression: Compression::None, zstd_level: 3, session_depth: 1 },
    );
    let server = repe::Server::new(router);
    let listener = server.listen("127.0.0.1:0").map_err(|e| e.to_string())?;
    let addr = listener.local_addr().unwrap();
    std::thread::spawn(move || {
        let _ = server.serve(listener);
    });
    let expected = beve::to_vec_typed_slice(&samples);
    let client = repe::Client::connect(addr).map_err(|e| e.to_string())?;
    // which stream ids are still pullable? (ids are handed out from 1)
    let live = |upto: u64| -> Vec<(u64, usize)> {
        (1..=upto)
            .filter_map(|id| {
                let body = beve::to_vec(&NextRequest { stream_id: id }).unwrap();
                client.call_with_formats(ROUTE_NEXT, repe::QueryFormat::JsonPointer as u16, Some(&body), repe::BodyFormat::Beve as u16).ok().map(|m| (id, m.body.len()))
            })
            .collect()
    };
    let wait_released = |who: &str, upto: u64| -> Result<(), String> {
        let t0 = std::time::Instant::now();
        loop {
            let l = live(upto);
            if l.is_empty() {
                return Ok(());
            }
            if t0.elapsed() > Duration::from_secs(10) {
                return Err(format!("{who}: the consumer stopped after 16 bytes, yet 10 s later a raw next still returns chunks for stream(s) {l:?}; an early stop must release the stream"));
            }
            std::thread::sleep(Duration::from_millis(50));
        }
    };
    // (a) blocking
    let head = repe::pull_consume(&client, "samples", |reader| {
        let mut head = [0u8; 16];
        reader.read_exact(&mut head)?;
        Ok(head.to_vec())
    })
    .map_err(|e| format!("blocking early-stopped pull failed: {e}"))?;
    if head != expected[..16] {
        return Err("blocking early-stopped pull delivered the wrong first 16 bytes".into());
    }
    wait_released("pull_consume (blocking client)", 2)?;
    // (b) async
    let rt = tokio::runtime::Builder::new_multi_thread().worker_threads(2).enable_all().build().unwrap();
    let aclient = rt.block_on(repe::AsyncClient::connect(addr)).map_err(|e| e.to_string())?;
    let head = rt
        .block_on(repe::value_stream::pull_consume_async(&aclient, "samples", |mut reader: Box<dyn std::io::Read>| {
            let mut head = [0u8; 16];
            reader.read_exact(&mut head)?;
            Ok(head.to_vec())
        }))
        .map_err(|e| format!("async early-stopped pull failed: {e}"))?;
    if head != expected[..16] {
        return Err("async early-stopped pull delivered the wrong first 16 bytes".into());
    }
    wait_released("pull_consume_async (async client)", 4)?;
    rt.shutdown_background();
    Ok("early-stopped blocking and async pulls released their streams".into())
}

// ---------------------------------------------------------------------------------------------
// C15: connect callbacks of every flavour run for an accepted connection. Here the server's only
// connect callback is the handshake-aware one (no plain callback, no attached registry), served
// by the built-in accept loop: it must fire once, its alias must be present until disconnect,
// and its notification must precede the first response.
mod ws_handshake_only_hook {
    // Cargo features needed: websocket
    //! C15 demo 1: a server whose only connect callback is handshake-aware, served
    //! through the built-in accept loop. The callback must fire once per accepted
    //! connection, the notify it queues must be the first frame on the wire, and
    //! the alias it attaches must be resolvable while the connection is up.

    use std::sync::Arc;
    use std::sync::atomic::{AtomicUsize, Ordering};
    use std::time::Duration;

    use futures_util::{SinkExt, StreamExt};
    use repe::server::Router;
    use repe::tokio_tungstenite::connect_async;
    use repe::tokio_tungstenite::tungstenite::Message as WsMessage;
    use repe::{Message, NotifyBody, PeerRegistry, QueryFormat, WebSocketServer};
    use serde_json::json;
    use tokio::net::TcpListener;

    fn ping_request(id: u64) -> Vec<u8> {
        Message::builder()
            .id(id)
            .query_format(QueryFormat::JsonPointer)
            .query_str("/ping")
            .body_json(&json!({}))
            .expect("body")
            .build()
            .into_wire_bytes()
    }

    pub async fn scenario() {
        let router = Router::new().with_json("/ping", |_| Ok(json!({ "ok": true })));

        // The embedder wires the registry by hand from the handshake-aware hook
        // (insert + alias in one place), and evicts on disconnect.
        let peers = PeerRegistry::new();
        let connects = Arc::new(AtomicUsize::new(0));
        let disconnects = Arc::new(AtomicUsize::new(0));

        let peers_c = peers.clone();
        let peers_d = peers.clone();
        let connects_h = Arc::clone(&connects);
        let disconnects_h = Arc::clone(&disconnects);
        let server = WebSocketServer::new(router)
            .on_peer_connect_with_handshake(move |peer, hs| {
                connects_h.fetch_add(1, Ordering::SeqCst);
                peers_c.insert(peer.clone());
                if let Some(token) = hs.query().and_then(|q| q.strip_prefix("token=")) {
                    peers_c.alias(peer.peer_id(), token);
                }
                let _ = peer.send_notify("/welcome", NotifyBody::Json(b"{}".to_vec()));
            })
            .on_peer_disconnect(move |id| {
                disconnects_h.fetch_add(1, Ordering::SeqCst);
                peers_d.remove(id);
            });

        let listener = TcpListener::bind(("127.0.0.1", 0)).await.unwrap();
        let addr = listener.local_addr().unwrap();
        let (stop_tx, stop_rx) = tokio::sync::oneshot::channel::<()>();
        let serve = tokio::spawn(async move {
            server
                .serve_listener_with_shutdown(listener, "/repe", async {
                    let _ = stop_rx.await;
                })
                .await
        });

        let (mut ws, _resp) = connect_async(format!("ws://{addr}/repe?token=abc123"))
            .await
            .expect("upgrade");
        ws.send(WsMessage::Binary(ping_request(1))).await.unwrap();

        // Collect the first two REPE frames the server puts on the wire.
        let mut frames = Vec::new();
        while frames.len() < 2 {
            let next = tokio::time::timeout(Duration::from_secs(30), ws.next()).await;
            let Ok(Some(Ok(frame))) = next else { break };
            if let WsMessage::Binary(bytes) = frame {
                frames.push(Message::from_slice_exact(&bytes).expect("repe frame"));
            }
        }

        assert_eq!(
            connects.load(Ordering::SeqCst),
            1,
            "the handshake-aware connect callback must fire once for an accepted connection"
        );
        assert!(
            peers.get_by("abc123").is_some(),
            "peer alias must be present from connect until disconnect"
        );
        assert_eq!(frames.len(), 2, "expected the welcome notify and the response");
        assert_ne!(frames[0].header.notify, 0, "first frame must be the connect-hook notify");
        assert_eq!(frames[0].query_str().unwrap(), "/welcome");
        assert_eq!(frames[1].header.id, 1, "the response comes after the notify");

        drop(ws);
        for _ in 0..6000 {
            if disconnects.load(Ordering::SeqCst) == 1 && peers.get_by("abc123").is_none() {
                break;
            }
            tokio::time::sleep(Duration::from_millis(10)).await;
        }
        assert_eq!(disconnects.load(Ordering::SeqCst), 1);
        assert!(peers.get_by("abc123").is_none());
        assert!(peers.is_empty());

        let _ = stop_tx.send(());
        let _ = tokio::time::timeout(Duration::from_secs(2), serve).await;
    }
    pub fn run() -> Result<String, String> {
        let rt = tokio::runtime::Builder::new_multi_thread().worker_threads(2).enable_all().build().unwrap();
        rt.block_on(scenario());
        rt.shutdown_background();
        Ok("handshake-aware connect callback fired once, alias present until disconnect, notify before response".into())
    }
}

// ---------------------------------------------------------------------------------------------
// C12 through the registry: inbound ack / cancel / resume handlers reach a producer's control via
// TransferRegistry::get(id). The registry is a plain map: the latest registration under an id is
// the one handed out, so a signal routed through it wakes the producer parked on that control.
fn transfer_registry_map() -> Result<String, String> {
    use repe::stream::{TransferControl, TransferRegistry};
    let reg: Arc<TransferRegistry<u64>> = Arc::new(TransferRegistry::new());
    let stale = TransferControl::new(8);
    let live = TransferControl::new(8);
    reg.register(7, stale.clone());
    reg.register(7, live.clone()); // a new transfer re-uses the id without an unregister in between
    reg.register(9, TransferControl::new(8));
    match reg.get(7) {
        Some(c) if Arc::ptr_eq(&c, &live) => {}
        Some(c) if Arc::ptr_eq(&c, &stale) => return Err("TransferRegistry::get(7) hands out the first control registered under the id, not the latest: signals routed through the registry reach a control nobody is parked on".into()),
        _ => return Err("TransferRegistry::get(7) does not return a registered control".into()),
    }
    if reg.len() != 2 || reg.is_empty() || reg.get(8).is_some() {
        return Err(format!("TransferRegistry of two ids reports len {}", reg.len()));
    }
    // a producer parked on the live control is woken by an ack routed through the registry
    live.record_sent(8);
    let waiter = {
        let c = live.clone();
        std::thread::spawn(move || {
            let t0 = std::time::Instant::now();
            let r = c.wait_for_credit(4, std::time::Instant::now() + Duration::from_secs(20));
            (r.is_ok(), t0.elapsed())
        })
    };
    std::thread::sleep(Duration::from_millis(200));
    match reg.get(7) {
        Some(c) => c.record_ack(0, 8),
        None => return Err("registry lost id 7".into()),
    }
    let (ok, took) = waiter.join().map_err(|_| "waiter panicked".to_string())?;
    if !ok || took > Duration::from_secs(10) {
        return Err(format!("a producer parked on the control registered last under id 7 was not released by an ack routed through the registry (ok={ok}, waited {took:?})"));
    }
    match reg.unregister(7) {
        Some(c) if Arc::ptr_eq(&c, &live) => {}
        _ => return Err("unregister(7) did not return the registered control".into()),
    }
    if reg.get(7).is_some() || reg.len() != 1 {
        return Err("unregister(7) left the id registered".into());
    }
    Ok("latest registration wins, routed ack wakes the parked producer, unregister removes".into())
}

// ---------------------------------------------------------------------------------------------
// C09 over configurations: (a) every session depth 0..8 delivers the payload byte-exactly (depth 0
// is a rendezvous channel); (b) a server with only a write timeout serves a consumer that pauses
// longer than that timeout between two pulls: the stream continues to its end marker.
fn svs_depths_and_slow_consumer() -> Result<String, String> {
    use repe::value_stream::{Compression, RouterValueStreamExt, StreamOpts, ROUTE_NEXT, ROUTE_OPEN};
    use std::io::Write;
    #[derive(serde::Serialize)]
    struct OpenRequest {
        resource: String,
    }
    #[derive(serde::Deserialize)]
    struct OpenResponse {
        #[allow(dead_code)]
        version: u8,
        stream_id: u64,
        #[allow(dead_code)]
        format: u16,
        #[allow(dead_code)]
        compression: u8,
    }
    #[derive(serde::Serialize)]
    struct NextRequest {
        stream_id: u64,
    }
    let payload: Vec<u8> = (0..100usize).map(|i| (i * 13 + 5) as u8).collect();
    let mut n = 0;
    for depth in [0usize, 1, 2, 3, 8] {
        for compression in [Compression::None, Compression::Zstd] {
            let p2 = payload.clone();
            let opts = StreamOpts { chunk_bytes: 16, compression, zstd_level: 3, session_depth: depth };
            let router = repe::Router::new().with_writer_stream(
                repe::BodyFormat::RawBinary,
                move |_r: &str| {
                    let p = p2.clone();
                    Some(move |w: &mut dyn Write| -> std::io::Result<()> { w.write_all(&p) })
                },
                opts,
            );
            let server = repe::Server::new(router);
            let listener = server.listen("127.0.0.1:0").map_err(|e| e.to_string())?;
            let addr = listener.local_addr().unwrap();
            std::thread::spawn(move || {
                let _ = server.serve(listener);
            });
            let client = repe::Client::connect(addr).map_err(|e| e.to_string())?;
            let (tx, rx) = std::sync::mpsc::channel();
            std::thread::spawn(move || {
                let _ = tx.send(repe::pull_to_vec(&client, "x"));
            });
            match rx.recv_timeout(Duration::from_secs(30)) {
                Ok(Ok(v)) if v == payload => {}
                Ok(other) => return Err(format!("session_depth {depth}, {compression:?}: a 100-byte payload in 16-byte chunks was pulled as {:?}", other.map(|v| v.len()).map_err(|e| e.to_string()))),
                Err(_) => return Err(format!("session_depth {depth}, {compression:?}: the pull did not finish within 30 s")),
            }
            n += 1;
        }
    }
    // (b) slow consumer against a server with only a write timeout
    let p2 = payload.clone();
    let router = repe::Router::new().with_writer_stream(
        repe::BodyFormat::RawBinary,
        move |_r: &str| {
            let p = p2.clone();
            Some(move |w: &mut dyn Write| -> std::io::Result<()> { w.write_all(&p) })
        },
        StreamOpts { chunk_bytes: 16, compression: Compression::None, zstd_level: 3, session_depth: 2 },
    );
    let server = repe::Server::new(router).write_timeout(Some(Duration::from_millis(300)));
    let listener = server.listen("127.0.0.1:0").map_err(|e| e.to_string())?;
    let addr = listener.local_addr().unwrap();
    std::thread::spawn(move || {
        let _ = server.serve(listener);
    });
    let client = repe::Client::connect(addr).map_err(|e| e.to_string())?;
    let call = |route: &str, body: Vec<u8>| client.call_with_formats(route, repe::QueryFormat::JsonPointer as u16, Some(&body), repe::BodyFormat::Beve as u16);
    let open: OpenResponse = call(ROUTE_OPEN, beve::to_vec(&OpenRequest { resource: "x".into() }).unwrap()).map_err(|e| format!("open: {e}"))?.beve_body().map_err(|e| e.to_string())?;
    let mut got = Vec::new();
    let mut last = false;
    for k in 0..20 {
        if k == 2 {
            std::thread::sleep(Duration::from_millis(900)); // longer than the server's WRITE timeout; nothing is being written meanwhile
        }
        match call(ROUTE_NEXT, beve::to_vec(&NextRequest { stream_id: open.stream_id }).unwrap()) {
            Ok(m) => {
                got.extend_from_slice(&m.body);
                if m.query.first().copied() == Some(1) {
                    last = true;
                    break;
                }
            }
            Err(e) => return Err(format!("a consumer that paused 900 ms between two pulls lost its stream on a server configured with only write_timeout(300 ms): next #{k} failed with {e} after {} of 100 bytes", got.len())),
        }
    }
    if !last || got != payload {
        return Err(format!("slow consumer: stream ended={last} with {} of 100 bytes", got.len()));
    }
    Ok(format!("{n} depth/compression combinations byte-exact; slow consumer served to the end marker"))
}

// ---------------------------------------------------------------------------------------------
// C19: a transport failure never leaves the node wedged. Here the failure is a fleet call whose
// future is dropped while its (large) request is still being written to a node that has stopped
// reading: the cached connection is torn. The next call must classify that as a transport failure,
// drop the connection, reconnect and succeed (max_attempts 2, the node accepts new connections).
async fn async_fleet_abandoned_send_recovers() -> Result<String, String> {
    use std::io::Write as _;
    let listener = std::net::TcpListener::bind("127.0.0.1:0").map_err(|e| e.to_string())?;
    let port = listener.local_addr().unwrap().port();
    let conns = Arc::new(AtomicUsize::new(0));
    let c2 = conns.clone();
    std::thread::spawn(move || {
        for (i, stream) in listener.incoming().enumerate() {
            let Ok(stream) = stream else { break };
            c2.fetch_add(1, Ordering::SeqCst);
            std::thread::spawn(move || {
                if i == 0 {
                    // the first connection never reads: the client's large write stalls
                    std::thread::sleep(Duration::from_secs(8));
                    return;
                }
                let mut reader = std::io::BufReader::new(stream.try_clone().unwrap());
                let mut writer = std::io::BufWriter::new(stream);
                while let Ok(req) = repe::read_message(&mut reader) {
                    let resp = repe::Message::builder().id(req.header.id).body_json(&json!("pong")).unwrap().build();
                    if repe::write_message(&mut writer, &resp).is_err() || writer.flush().is_err() {
                        return;
                    }
                }
            });
        }
    });
    let cfg = repe::NodeConfig::new("127.0.0.1", port).unwrap().with_name("n").unwrap().with_timeout(Duration::from_secs(2)).unwrap();
    let opts = repe::FleetOptions { retry_policy: repe::RetryPolicy { max_attempts: 2, delay: Duration::from_millis(10) }, ..Default::default() };
    let fleet = repe::AsyncFleet::with_options(vec![cfg], opts).map_err(|e| e.to_string())?;
    let big = json!("x".repeat(32 << 20));
    let first = tokio::time::timeout(Duration::from_millis(400), fleet.call_json("n", "/big", Some(&big))).await;
    if first.is_ok() {
        return Ok("inconclusive: the 32 MiB call to a node that does not read completed within 400 ms".into());
    }
    // the caller gave up mid-send; the node is reachable (it accepts new connections and answers)
    let second = tokio::time::timeout(Duration::from_secs(20), fleet.call_json("n", "/ping", Some(&json!(1)))).await;
    match second {
        Ok(Ok(r)) => match r.into_result() {
            Ok(_) => Ok(format!("recovered on a new connection ({} connections)", conns.load(Ordering::SeqCst))),
            Err(e) => Err(format!("after a fleet call was abandoned mid-send, the next call (max_attempts 2, node reachable) failed with `{e}`: the torn connection was not treated as a transport failure, so it was neither retried nor dropped -- the node is wedged")),
        },
        Ok(Err(e)) => Err(format!("fleet error: {e}")),
        Err(_) => Err("the call after an abandoned send did not return within 20 s".into()),
    }
}
