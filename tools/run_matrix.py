#!/usr/bin/env python3
"""Run each seeded change (and each reverted fix) against the check of the property it breaks.
   Writes /verif/seeded/_matrix.json: {key: {rc, lines}}"""
import glob, json, os, re, subprocess, sys
VH = os.environ.get("VERIF_HOME", "/verif")
OUT = os.environ.get("MATRIX_OUT", VH + "/seeded/_matrix.json")
res = json.load(open(OUT)) if os.path.exists(OUT) else {}
REG = {"1b258a3": "C05", "de01f4b": "C06", "314fa4a": "C02", "5a13073": "C02", "d6ab1e3": "C11", "14c15fa": "C05", "c015c6a": "C05", "142b2d4": "C19"}
jobs = []
for d in sorted(glob.glob(VH + "/seeded/C[0-9][0-9]-[0-9]*")):
    pid, k = os.path.basename(d).split("-")
    jobs.append(("%s/%s" % (pid, k), d + "/patch.diff", pid))
for f in sorted(glob.glob(VH + "/seeded/_regress/revert-*.diff")):
    h = re.search(r"revert-(\w+)\.diff", f).group(1)
    jobs.append(("revert-" + h, f, REG[h]))
want = sys.argv[1:]
for key, patch, pid in jobs:
    if want and key not in want and pid not in want:
        continue
    p = subprocess.run([VH + "/tools/try_patch.sh", patch, pid], capture_output=True, text=True)
    lines = [l for l in p.stdout.splitlines() if l.startswith(("VIOLATION", "UNDECIDED", "OK ", "failed obligation", "PATCH"))]
    rc = p.returncode
    res[key] = {"property": pid, "rc": rc, "verdict": {0: "MISSED", 1: "VIOLATION", 2: "UNDECIDED"}.get(rc, "other:%d" % rc),
                "confirmed_input": any(l.startswith("VIOLATION") and not l.endswith("no-failing-input-found") for l in lines),
                "lines": lines[:6]}
    json.dump(res, open(OUT, "w"), indent=1)
    print(key, res[key]["verdict"], flush=True)
