// Kani: WebSocketLimits::check_outbound over every (limit, size) pair -- loop-free, complete.
// Mounted as a child module of src/websocket_limits.rs (feature websocket).
use crate::websocket_limits::WebSocketLimits;
use crate::RepeError;

#[kani::proof]
fn check_outbound_total() {
    let limit: Option<usize> = if kani::any() { Some(kani::any()) } else { None };
    let size: usize = kani::any();
    let l = WebSocketLimits::unlimited().with_assumed_peer_frame_limit(limit);
    match l.check_outbound(size) {
        Ok(()) => {
            kani::cover!(limit.is_some(), "within a configured limit");
            match limit {
                Some(x) => assert!(size <= x),
                None => {}
            }
        }
        Err(RepeError::MessageTooLarge { size: s, limit: x }) => {
            kani::cover!(true, "over the limit");
            assert!(limit == Some(x) && s == size && size > x);
        }
        Err(_) => assert!(false, "only MessageTooLarge"),
    }
}
