use crate::error::RepeError;
use std::io::ErrorKind;

fn kind_from(i: u8) -> ErrorKind {
    match i {
        0 => ErrorKind::TimedOut, 1 => ErrorKind::ConnectionRefused, 2 => ErrorKind::ConnectionReset,
        3 => ErrorKind::ConnectionAborted, 4 => ErrorKind::NotConnected, 5 => ErrorKind::UnexpectedEof,
        6 => ErrorKind::BrokenPipe, 7 => ErrorKind::WouldBlock, 8 => ErrorKind::Interrupted,
        _ => ErrorKind::Other,
    }
}

#[kani::proof]
fn dead_client_errors_are_retryable() {
    let i: u8 = kani::any();
    kani::assume(i <= 8);
    let e = RepeError::Io(std::io::Error::from(kind_from(i)));
    assert!(crate::fleet::is_retryable_error_for_verif(&e));
}
