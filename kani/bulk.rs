// Kani (bounded, labelled bounded in evidence): the bulk typed-array encoder against the generic serde encoder
// on the real repe + beve code, for fully symbolic element bit patterns (NaN payloads, infinities, extremes).
// Mounted as a child module of src/message.rs.
use crate::message::Message;

#[kani::proof]
#[kani::unwind(24)]
fn bulk_u32_len2_matches_generic() {
    let data: [u32; 2] = kani::any();
    let bulk = Message::builder().body_typed_slice(&data).build();
    let v = data.to_vec();
    let generic = Message::builder().body_beve(&v).unwrap().build();
    assert!(bulk.header.body_format == 1);
    assert!(bulk.body == generic.body);
    let back: Vec<u32> = bulk.decode_typed_slice().unwrap();
    assert!(back.len() == 2 && back[0] == data[0] && back[1] == data[1]);
}

#[kani::proof]
#[kani::unwind(24)]
fn bulk_f64_len1_bit_exact() {
    let bits: u64 = kani::any();
    let data = [f64::from_bits(bits)];
    let bulk = Message::builder().body_typed_slice(&data).build();
    let back: Vec<f64> = bulk.decode_typed_slice().unwrap();
    assert!(back.len() == 1 && back[0].to_bits() == bits);
}

// the format guard, complete (loop-free): any body_format code other than BEVE is refused by the bulk decoders
#[kani::proof]
#[kani::unwind(8)]
fn bulk_decoder_refuses_every_other_format_code() {
    let code: u16 = kani::any();
    kani::assume(code != 1);
    let mut m = Message::builder().body_typed_slice::<u8>(&[]).build();
    m.header.body_format = code;
    assert!(m.decode_typed_slice::<u8>().is_err());
    assert!(m.decode_complex_slice::<f32>().is_err());
}
